"""C14 — JSON encoding round-trips through the parser.

E1 with 3-transition chains: construct -> json.dumps(cls=JSONEncoder) -> strict json.loads -> cls.__from__(text);
every (field type, container shape, boundary value) of the JSON-faithful domain is enumerated.
"""
import itertools
import json

from ..core import Acc, bootstrap

bootstrap()
from ..universe import _NS, ev        # noqa: E402
from ..canon import short, canon     # noqa: E402

from utype.utils import exceptions as uexc   # noqa: E402
from utype.utils.encode import JSONEncoder   # noqa: E402

ID = "C14"
LEVEL = "model_checking"
RULE = ("product space: one data class per (field type x container shape: scalar, List, Set, Tuple[..., ...], Dict[str, .], "
        "Optional, nested data class, two-field class, and the two-level shapes Set[Tuple[., int]], List[Tuple[., str]], "
        "Dict[str, List[.]], List[Set[.]], Dict[str, Inner], List[Inner], FrozenSet[.], Tuple[int, ., Optional[.]]) x every boundary value of the type's list (ints to 2^53+-1 and 10^20, "
        "floats incl. -0.0 / 5e-324 / 1e22, Decimals to 15 digits at exponents -7..7, strings with non-BMP and control "
        "characters, UTF-8 bytes, dates 0001..9999, datetimes naive / UTC / 6 offsets x 3 microsecond values, times to "
        "milliseconds, timedeltas incl. negative and microsecond ones, UUID, Enums, empty containers) x both base classes; "
        "state = one (class, instance), 3 transitions each. Every case is non-trivial unless the value is a plain int/str/bool")
ASSUMPTIONS = [
    "standard JSON is checked with json.loads(parse_constant=<raise>) on the text produced by json.dumps(inst, "
    "cls=utype.JSONEncoder)",
    "equality of instances: canon() of the mapping (type-tagged, set order insensitive), datetimes compared as instants "
    "with their UTC offset",
    "values outside the statement's domain (NaN, Decimals beyond 15 significant digits, sub-millisecond times, non-UTF-8 "
    "bytes) are not enumerated",
]

INTS = ["0", "1", "-1", "255", "2**31", "-2**31", "2**53-1", "2**53", "2**53+1", "-(2**53)-1", "10**20", "-10**20"]
FLOATS = ["0.0", "-0.0", "1.0", "-1.5", "0.1", "3.141592653589793", "5e-324", "1e22", "1.7976931348623157e308", "-2.5e-7",
          "1e16", "123456789.125", "float('inf')", "float('-inf')"]
STRS = ["''", "'a'", "' '", "'\\n\\t\\x00'", "'\\u00e9\\u4e2d'", "'\\U0001F600'", "'\"quoted\\\\'", "'null'", "'123'", "'true'",
        "'[1,2]'", "'{\"a\":1}'", "'2020-01-02'", "'a,b'", "'a=1&b=2'", "'\\ufeffx'", "'http://h/?q=1&p=2'", "'='", "'&'"]
BOOLS = ["True", "False"]
BYTES = ["b''", "b'abc'", "'\\u00e9\\u4e2d'.encode()", "b'\\x00\\x01'", "b'[1]'", "'\\ufeffabc'.encode()", "'a\\ufeff'.encode()",
         "b'a=1&b=2'"]
DECIMALS = ["Decimal('0')", "Decimal('1')", "Decimal('-1.5')", "Decimal('0.1')", "Decimal('123456789012345')",
            "Decimal('1234567.89012345')", "Decimal('0.000000123456789')", "Decimal('1E+7')", "Decimal('1.5E-7')",
            "Decimal('-99999.9999')", "Decimal('2.50')", "Decimal('100')", "Decimal('12345678901234.5')",
            # few significant digits, exponents far outside the float range
            "Decimal('1E+400')", "Decimal('-1.5E+309')", "Decimal('1.5E+17')", "Decimal('-2.5E+300')", "Decimal('1E-400')",
            "Decimal('7E-320')",
            # 15 significant digits in the subnormal float range (a float keeps fewer there)
            "Decimal('1.23456789012345E-320')", "Decimal('-1.23456789012345E-310')", "Decimal('1.23456789012345E-307')"]
DATES = ["date(1,1,1)", "date(1970,1,1)", "date(2020,2,29)", "date(9999,12,31)", "date(999,1,9)"]
_OFFS = ["", "tzinfo=timezone.utc", "tzinfo=timezone(timedelta(hours=-12))", "tzinfo=timezone(timedelta(hours=-5))",
         "tzinfo=timezone(timedelta(minutes=-30))", "tzinfo=timezone(timedelta(0))",
         "tzinfo=timezone(timedelta(hours=5, minutes=30))", "tzinfo=timezone(timedelta(hours=14))",
         # offsets that carry seconds (local mean times of old zone data): isoformat writes +05:53:28
         "tzinfo=timezone(timedelta(hours=5, minutes=53, seconds=28))", "tzinfo=timezone(-timedelta(hours=4, minutes=56, seconds=2))",
         # "any UTC offset": Python allows sub-second ones (isoformat writes +00:00:00.000001)
         "tzinfo=timezone(timedelta(microseconds=1))", "tzinfo=timezone(-timedelta(hours=1, microseconds=500))"]
DATETIMES = [f"datetime(2020,1,2,3,4,5,{us}{',' if off else ''}{off})" for off in _OFFS for us in ("0", "1", "999999")] + \
            ["datetime(1,1,1,0,0,0)", "datetime(9999,12,31,23,59,59,999999)", "datetime(1970,1,1)", "datetime(2020,1,2)",
             "datetime(1969,12,31,23,59,59)", "datetime(2038,1,19,3,14,8)"]
TIMES = ["time(0,0)", "time(3,4,5)", "time(23,59,59)", "time(3,4,5,678000)", "time(3,4,5,1000)", "time(12,0)"]
TIMEDELTAS = ["timedelta(0)", "timedelta(microseconds=1)", "timedelta(microseconds=-1)", "timedelta(seconds=1)",
              "timedelta(seconds=-1)", "timedelta(days=-1, seconds=5)", "timedelta(days=400)", "timedelta(hours=36, minutes=1)",
              "timedelta(days=1, microseconds=500000)", "timedelta(seconds=59.5)", "timedelta(days=-400, microseconds=1)",
              "timedelta(days=212942, seconds=61123, microseconds=852397)", "timedelta(days=-200000, microseconds=3)",
              "timedelta(days=999999, hours=23, minutes=59, seconds=59, microseconds=999999)", "timedelta(days=104250, microseconds=1)"]
UUIDS = ["UUID1", "UUID(int=0)", "UUID('ffffffff-ffff-ffff-ffff-ffffffffffff')"]
COLORS = ["Color.RED", "Color.GREEN"]
NUMS = ["Num.ONE", "Num.TWO"]
SWAPS = ["Tricky.A", "Tricky.B"]
PLAINS = ["Plain.X", "Plain.Y"]
OPTINTS = ["None", "0", "5"]

TYPES = {
    "int": ("int", INTS), "float": ("float", FLOATS), "str": ("str", STRS), "bool": ("bool", BOOLS),
    "bytes": ("bytes", BYTES), "Decimal": ("Decimal", DECIMALS), "date": ("date", DATES), "datetime": ("datetime", DATETIMES),
    "time": ("time", TIMES), "timedelta": ("timedelta", TIMEDELTAS), "UUID": ("UUID", UUIDS), "Color": ("Color", COLORS),
    "Num": ("Num", NUMS), "Tricky": ("Tricky", SWAPS), "Plain": ("Plain", PLAINS), "OptInt": ("Optional[int]", OPTINTS),
}
SHAPES = ["scalar", "optional", "list", "set", "tuple", "dict", "nested", "pair",
          # containers of containers
          "set-of-tuples", "list-of-tuples", "dict-of-lists", "list-of-sets", "dict-of-nested", "list-of-nested", "frozenset",
          "tuple-fixed", "frozenset-of-tuples", "dict-of-frozensets-of-tuples"]


def bounds(tier):
    return dict(types=len(TYPES), shapes=SHAPES, values={k: len(v[1]) for k, v in TYPES.items()}, bases=["Schema", "DataClass"])


def shards(tier):
    return [(base, t, sh) for base in ("Schema", "DataClass") for t in TYPES for sh in SHAPES]


def source(base, t, shape):
    ann = TYPES[t][0]
    f = {"scalar": ann, "optional": f"Optional[{ann}]", "list": f"List[{ann}]", "set": f"Set[{ann}]",
         "tuple": f"Tuple[{ann}, ...]", "dict": f"Dict[str, {ann}]", "nested": "Inner", "pair": ann,
         "set-of-tuples": f"Set[Tuple[{ann}, int]]", "list-of-tuples": f"List[Tuple[{ann}, str]]",
         "dict-of-lists": f"Dict[str, List[{ann}]]", "list-of-sets": f"List[Set[{ann}]]", "dict-of-nested": "Dict[str, Inner]",
         "list-of-nested": "List[Inner]", "frozenset": f"typing.FrozenSet[{ann}]",
         "frozenset-of-tuples": f"typing.FrozenSet[Tuple[{ann}, int]]",
         "dict-of-frozensets-of-tuples": f"Dict[str, typing.FrozenSet[Tuple[{ann}, {ann}]]]", "tuple-fixed": f"Tuple[int, {ann}, Optional[{ann}]]"}[shape]
    src = ""
    if "nested" in shape:
        src += f"class Inner({base}):\n    w: {ann}\n    n: int = 0\n"
    src += f"class S({base}):\n    v: {f}\n"
    if shape == "pair":
        src += f"    u: Optional[{ann}] = None\n    k: str = 'k'\n"
    return src


def instances(t, shape, tier):
    """-> value expressions for the field v (and u for 'pair')"""
    vals = TYPES[t][1]
    hashable = t not in ()
    if shape == "scalar":
        for v in vals:
            yield {"v": v}
    elif shape == "optional":
        yield {"v": "None"}
        for v in vals[:3]:
            yield {"v": v}
    elif shape == "list":
        yield {"v": "[]"}
        for v in vals:
            yield {"v": f"[{v}]"}
        for a, b in itertools.islice(itertools.combinations(vals, 2), 0, None if tier == "thorough" else 12):
            yield {"v": f"[{a}, {b}, {a}]"}
    elif shape == "set":
        yield {"v": "set()"}
        for v in vals:
            yield {"v": "{" + v + "}"}
        for a, b in itertools.islice(itertools.combinations(vals, 2), 0, None if tier == "thorough" else 12):
            yield {"v": "{" + a + ", " + b + "}"}
    elif shape == "tuple":
        yield {"v": "()"}
        for v in vals:
            yield {"v": f"({v},)"}
        for a, b in itertools.islice(itertools.combinations(vals, 2), 0, None if tier == "thorough" else 12):
            yield {"v": f"({a}, {b})"}
    elif shape == "dict":
        yield {"v": "{}"}
        for v in vals:
            yield {"v": "{'k': " + v + "}"}
        for a, b in itertools.islice(itertools.combinations(vals, 2), 0, None if tier == "thorough" else 12):
            yield {"v": "{'': " + a + ", 'k2': " + b + "}"}
    elif shape == "nested":
        for v in vals:
            yield {"v": "{'w': " + v + "}"}
    elif shape == "pair":
        for a, b in itertools.islice(itertools.product(vals, vals), 0, None if tier == "thorough" else 20):
            yield {"v": a, "u": b}
    else:
        n = len(vals) if tier == "thorough" else 6
        pairs = list(itertools.islice(itertools.combinations(vals, 2), 0, None if tier == "thorough" else 4))
        if shape == "set-of-tuples":
            yield {"v": "set()"}
            for v in vals[:n]:
                yield {"v": "{(" + v + ", 1)}"}
            for a, b in pairs:
                yield {"v": "{(" + a + ", 1), (" + b + ", 2), (" + a + ", 3)}"}
        elif shape == "frozenset-of-tuples":
            yield {"v": "frozenset()"}
            for v in vals[:n]:
                yield {"v": "frozenset({(" + v + ", 1)})"}
            for a, b in pairs:
                yield {"v": "frozenset({(" + a + ", 1), (" + b + ", 2), (" + a + ", 3)})"}
        elif shape == "dict-of-frozensets-of-tuples":
            yield {"v": "{'k': frozenset()}"}
            for a, b in pairs:
                yield {"v": "{'k': frozenset({(" + a + ", " + b + ")}), '': frozenset({(" + b + ", " + b + "), (" + a + ", " + a + ")})}"}
        elif shape == "list-of-tuples":
            yield {"v": "[]"}
            for v in vals[:n]:
                yield {"v": "[(" + v + ", 'x')]"}
            for a, b in pairs:
                yield {"v": "[(" + a + ", 'x'), (" + b + ", ''), (" + a + ", 'x')]"}
        elif shape == "dict-of-lists":
            yield {"v": "{'k': []}"}
            for v in vals[:n]:
                yield {"v": "{'k': [" + v + "], '': []}"}
            for a, b in pairs:
                yield {"v": "{'k': [" + a + ", " + b + "], 'j': [" + b + "]}"}
        elif shape == "list-of-sets":
            yield {"v": "[set()]"}
            for v in vals[:n]:
                yield {"v": "[{" + v + "}, set()]"}
            for a, b in pairs:
                yield {"v": "[{" + a + ", " + b + "}, {" + a + "}]"}
        elif shape == "dict-of-nested":
            yield {"v": "{}"}
            for v in vals[:n]:
                yield {"v": "{'k': {'w': " + v + "}, '': {'w': " + v + ", 'n': 2}}"}
        elif shape == "list-of-nested":
            yield {"v": "[]"}
            for v in vals[:n]:
                yield {"v": "[{'w': " + v + "}, {'w': " + v + ", 'n': 2}]"}
        elif shape == "frozenset":
            yield {"v": "frozenset()"}
            for v in vals[:n]:
                yield {"v": "frozenset({" + v + "})"}
            for a, b in pairs:
                yield {"v": "frozenset({" + a + ", " + b + "})"}
        elif shape == "tuple-fixed":
            for v in vals[:n]:
                yield {"v": "(1, " + v + ", None)"}
            for a, b in pairs:
                yield {"v": "(2, " + a + ", " + b + ")"}


def _raise_constant(name):
    raise ValueError(f"non-standard JSON constant {name}")


def as_mapping(inst):
    if isinstance(inst, dict):
        return dict(dict.items(inst))
    return {k: v for k, v in inst.__dict__.items() if not k.startswith("__")}


class _FallbackEncoder(JSONEncoder):
    """the library's encoder plus: a DataClass instance is encoded as its attribute mapping (harness only)"""

    def default(self, o):
        if hasattr(type(o), "__parser__") and not isinstance(o, dict):
            return as_mapping(o)
        return super().default(o)


def run_shard(shard, tier):
    base, t, shape = shard
    acc = Acc()
    src = source(base, t, shape)
    env = dict(_NS)
    env["__name__"] = "utmc.ns"
    exec(src, env)
    cls = env["S"]
    for kw in instances(t, shape, tier):
        kwexpr = ", ".join(f"{k}={v}" for k, v in kw.items())
        acc.states += 1

        def viol(kind, msg):
            fp = f"C14|{base}|{t}|{shape}|{kind}"
            script = "\n".join([
                "import sys, json", "sys.path.insert(0, '/verif')", "from utmc.ns import *", "from utmc.canon import canon",
                "from utype.utils.encode import JSONEncoder", "from utmc.props import c14", src,
                f"inst = S({kwexpr})", "print('instance:', inst)", "bad = False", "try:",
                "    text = json.dumps(inst, cls=JSONEncoder); print('json:', text)",
                "    json.loads(text, parse_constant=c14._raise_constant)",
                "    back = S.__from__(text); print('parsed back:', back)",
                "    bad = canon(c14.as_mapping(back)) != canon(c14.as_mapping(inst))",
                "except Exception as e:", "    print(type(e).__name__, e); bad = True",
                "sys.exit(1 if bad else 0)"]) + "\n"
            acc.violation(fp, f"{base} field {TYPES[t][0]} [{shape}] instance S({kwexpr}): {msg}", script)
        try:
            inst = cls(**{k: ev(v) for k, v in kw.items()})
        except Exception as e:
            # the value is in the domain: construction from the native value must work
            acc.transitions += 1
            viol("construct-" + type(e).__name__, f"construction failed: {short(e, 100)}")
            continue
        acc.transitions += 3
        acc.evaluations += 1
        acc.nontrivial_add((base, t, shape, kwexpr))
        try:
            text = json.dumps(inst, cls=JSONEncoder)
        except Exception as e:
            acc.outcomes["encode-fails"] += 1
            if base == "DataClass" and "is not JSON serializable" in str(e) and "Object of type S" in str(e) or \
                    (base == "DataClass" and "Object of type Inner" in str(e)):
                viol("dataclass-instance-not-serializable",
                     f"json.dumps(cls=JSONEncoder) raised {type(e).__name__}: {short(e, 80)}")
                # continue the chain with the attribute mapping of the instance, so that the field values are still covered
                try:
                    text = json.dumps(inst, cls=_FallbackEncoder)
                except Exception as e2:
                    viol("encode-" + type(e2).__name__, f"encoding the attribute mapping raised {type(e2).__name__}: {short(e2, 80)}")
                    continue
            else:
                viol("encode-" + type(e).__name__, f"json.dumps(cls=JSONEncoder) raised {type(e).__name__}: {short(e, 80)}")
                continue
        try:
            json.loads(text, parse_constant=_raise_constant)
        except Exception as e:
            acc.outcomes["not-standard-json"] += 1
            viol("non-standard-json", f"the encoder produced {short(text, 80)}, which is not standard JSON ({e})")
            continue
        try:
            back = cls.__from__(text)
        except uexc.ParseError as e:
            acc.outcomes["parse-back-fails"] += 1
            viol("parse-back-fails", f"encoded as {short(text, 80)} which the same class rejects: {short(e, 100)}")
            continue
        except Exception as e:
            acc.outcomes["parse-back-raises"] += 1
            viol("parse-back-" + type(e).__name__, f"encoded as {short(text, 80)}; parsing raised {type(e).__name__}: {short(e, 80)}")
            continue
        if canon(as_mapping(back)) != canon(as_mapping(inst)):
            acc.outcomes["different-instance"] += 1
            viol("different-instance", f"encoded as {short(text, 80)}, parsed back as {short(as_mapping(back), 100)} instead of "
                                       f"{short(as_mapping(inst), 100)}")
            continue
        acc.outcomes["round-trip"] += 1
        if acc.states % 23 == 0:
            acc.sample(dict(cls=f"{base} v: {TYPES[t][0]} [{shape}]", instance=kwexpr, json=short(text, 100)))
    return acc
