"""C19 — parsing is pure: no input mutation, no shared defaults, no cross-call state.

(a) E1: over the container-valued part of C01's product space a deep structural snapshot of the input is compared
    before and after the call.
(b) E2: every history (to a depth bound) of {instantiate / call, mutate a result in place at every nesting level} on
    declarations with mutable defaults; after every step each untouched result and the declared default object are
    compared with the declared value.
(c) E2: every ordered pair (quick) / triple (thorough) of calls of different kinds (successful, failing, collecting,
    union with temporary errors) on shared types: the last outcome equals its outcome on freshly executed types.
"""
import itertools
from collections import deque
import sys
import types

from ..core import Acc, bootstrap, call_guarded

bootstrap()
from .. import e1, spec as S, typegram as tg   # noqa: E402
from ..universe import ev, _NS, CONTAINERS, DEEP  # noqa: E402
from ..canon import canon, short  # noqa: E402
from .. import inputs as I  # noqa: E402

from utype.utils import exceptions as uexc   # noqa: E402

ID = "C19"
LEVEL = "model_checking"
RULE = ("(a) declarations of the type grammar (leaves, generics, logical, data classes) x call forms x 6 option sets x every "
        "container-valued input of the alphabet and the type-directed containers: canon(input) before == after; (b) 7 "
        "declaration kinds (Schema / DataClass plain default, Field(default), Field(default_factory), function default, "
        "Param default) x 6 mutable defaults ([], {}, set(), ([],), {'k': []}, [[1]]) x every history of length <= 4 "
        "(quick) / 5 over {new result, mutate the first / last result at each nesting level}; (c) 9 call kinds on shared "
        "types (incl. a class and a function with two dependent fields), every ordered pair / triple. Non-trivial: (a) the parse converted the container, (b)/(c) every history")
ASSUMPTIONS = [
    "snapshots are canon(): deep, type-tagged, order-sensitive for sequences; one-shot iterators are excluded (consuming "
    "them is their contract)",
    "(b) a result is compared with the declared default only while the history has not mutated that very result",
    "(c) outcomes are compared as canon(value) or (exception type, message)",
]

OPTSETS = [
    {},
    {"invalid_items": "exclude", "invalid_keys": "exclude", "invalid_values": "exclude"},
    {"invalid_items": "preserve", "invalid_keys": "preserve", "invalid_values": "preserve"},
    {"collect_errors": True},
    {"no_data_loss": True},
    {"cast_keyword_str": True},
]
MUTABLE_ATOMS = [c for c in CONTAINERS if not c.startswith(("(", "frozenset", "{(", "(("))] + \
                ["bytearray(b'1')", "deque([1,2])", "MyList([1])", "MyDict(a=1)", "OrderedDict(a=1)", "elem(a='1')",
                 "nested_list(3,'x')", "nested_dict(3,'a','x')", "[[1, 'x'], {'a': [1]}]", "{'a': {'b': [1, '2']}, 'c': [[3]]}",
                 "[{'a': 1, 'zz': 2}]", "{'a': 1, 'zz': [1]}", "[(1, [2])]", "{'k': {1, 2}}", "[bytearray(b'x')]",
                 # mappings with keys that are not strings (cast_keyword_str converts them for the parse, not in the input)
                 "{1: 2, 'a': 1}", "{'a': 1, 2: 'zz', None: 3}", "[{1: 2, 'a': 3}]", "{'a': {1: 2}, 'b': {2.5: 1}}", "{'i': {1: 2, 'w': 3}}"]


def spec_universe(tier):
    specs = [("t", n) for n in ("list", "tuple", "set", "frozenset", "deque", "dict", "str", "int", "MyList", "Sequence",
                                "Mapping", "Any")]
    specs += [sp for sp in tg.constrained_specs(routes=("cls",)) if sp[1] in ("list", "tuple", "set", "dict", None)]
    specs += tg.lax_specs()[:6]
    specs += tg.generic_specs(depth=2 if tier == "thorough" else 1, elems=None if tier == "thorough" else tg.REP_ELEMS_Q)
    specs += tg.logical_specs(leaves=tg.LOGIC_LEAVES[9:13] + [("t", "int")], arities=(2,))
    specs += tg.dataclass_specs()
    return specs


DEFAULTS = ["[]", "{}", "set()", "([],)", "{'k': []}", "[[1]]"]
DECL_KINDS = ["schema-plain", "schema-field", "schema-factory", "dataclass-plain", "dataclass-field", "func-plain", "func-param",
              "schema-defer", "schema-defer-options", "dataclass-defer", "schema-defer-factory", "schema-force-default",
              "schema-force-default-runtime", "func-posonly", "func-kwonly", "schema-lax-const", "rule-lax-enum"]


# default *factories* that build a new object on every call: what they return may hold any mutable object (not only the
# containers that declared defaults are copied through), and may differ from call to call
FRESH_DEFAULTS = ["[bytearray(b'a')]", "{'in': deque([1])}", "[[bytearray(b'a')], {'k': deque()}]", "[next(COUNTER)]"]
FRESH_KINDS = ["schema-factory-fresh", "dataclass-factory-fresh", "schema-factory-fresh-sub"]


def bounds(tier):
    return dict(declarations=len(spec_universe(tier)), option_sets=len(OPTSETS), default_kinds=DEFAULTS,
                declaration_kinds=DECL_KINDS, history_length=5 if tier == "thorough" else 4, call_kinds=len(CALL_KINDS),
                call_sequence_length=3 if tier == "thorough" else 2)


CHUNK = 6


def shards(tier):
    n = len(spec_universe(tier))
    sh = [("mut", i, min(i + CHUNK, n)) for i in range(0, n, CHUNK)]
    sh += [("defaults", k, d) for k in DECL_KINDS for d in range(len(DEFAULTS))]
    sh += [("defaults", k, len(DEFAULTS) + d) for k in FRESH_KINDS for d in range(len(FRESH_DEFAULTS))]
    sh += [("history", i) for i in range(len(CALL_KINDS))]
    sh += [("reparse", i) for i in range(len(REPARSE_TYPES))]
    return sh


def run_shard(shard, tier):
    acc = Acc()
    if shard[0] == "mut":
        _mutation(acc, shard[1], shard[2], tier)
    elif shard[0] == "defaults":
        _defaults(acc, shard[1], shard[2], tier)
    elif shard[0] == "reparse":
        _reparse(acc, shard[1], tier)
    else:
        _history(acc, shard[1], tier)
    return acc


# ------------------------------------------------------------------------------------------------ (a)

def _is_mutable_container(x):
    from collections import deque
    return isinstance(x, (list, dict, set, bytearray, deque)) or type(x).__name__ == "Element"


def _mutation(acc, lo, hi, tier):
    for sp in spec_universe(tier)[lo:hi]:
        vals = list(MUTABLE_ATOMS)
        for v in I.directed_inputs(sp, k=2):
            try:
                if _is_mutable_container(ev(v)):
                    vals.append(v)
            except Exception:
                pass
        seen = set()
        vals = [v for v in vals if not (v in seen or seen.add(v))]
        forms = ["tt"] if sp[0] != "dc" else ["tt", "dcfrom", "dcposkw"]
        if sp[0] in ("t", "g", "gc"):
            forms += ["field", "param", "args", "kwargs"]
        for form in forms:
            for oi, opts in enumerate(OPTSETS):
                try:
                    fn, _, _ = e1.caller(sp, form, opts)
                except Exception:
                    acc.extra["declarations_rejected_at_build"] += 1
                    continue
                for vx in vals:
                    x = ev(vx)
                    before = canon(x)
                    st, y = call_guarded(lambda: fn(x), wall_s=1.0, step_budget=400_000)
                    acc.states += 1
                    acc.transitions += 1
                    acc.evaluations += 1
                    after = canon(x)
                    acc.outcomes[st] += 1
                    if st == "ok" and y is not x:
                        acc.nontrivial_add((sp, form, oi, vx))
                    if before != after:
                        fp = f"C19|input-mutated|{S.shape(sp)}|{form}|{e1.value_shape(ev(vx))}|{','.join(sorted(opts)) or 'default'}"
                        acc.violation(fp, f"{S.type_expr(sp)} form={form} opts={opts}: the input {vx} was changed by the call into "
                                          f"{short(x, 100)}",
                                      e1.script(sp, form, opts, vx, ["from utmc.canon import canon", f"x0 = {vx}",
                                                                     "bad = canon(x) != canon(x0)", "print('input after the call:', repr(x)[:200])"]))
                    if acc.states % 4999 == 0:
                        acc.sample(dict(decl=S.type_expr(sp), form=form, options=opts, input=vx, outcome=st))
        e1.reset_callers()


# ------------------------------------------------------------------------------------------------ (b)

def decl_source(kind, dexpr):
    if kind == "schema-plain":
        return f"D = {dexpr}\nclass S(Schema):\n    a: Any = D\n    n: int = 0\ndef new():\n    return S()\nget = lambda r: r.a\n"
    if kind == "schema-field":
        return f"D = {dexpr}\nclass S(Schema):\n    a: Any = Field(default=D)\ndef new():\n    return S()\nget = lambda r: r.a\n"
    if kind == "schema-factory":
        return (f"D = {dexpr}\nclass S(Schema):\n    a: Any = Field(default_factory=lambda: D)\ndef new():\n    return S()\n"
                "get = lambda r: r.a\n")
    if kind == "dataclass-plain":
        return f"D = {dexpr}\nclass S(DataClass):\n    a: Any = D\ndef new():\n    return S()\nget = lambda r: r.a\n"
    if kind == "dataclass-field":
        return f"D = {dexpr}\nclass S(DataClass):\n    a: Any = Field(default=D)\ndef new():\n    return S()\nget = lambda r: r.a\n"
    if kind == "schema-defer":
        return (f"D = {dexpr}\nclass S(Schema):\n    a: Any = Field(default=D, defer_default=True)\ndef new():\n    return S()\n"
                "get = lambda r: r.a\n")
    if kind == "schema-defer-options":
        return (f"D = {dexpr}\nclass S(Schema):\n    __options__ = Options(defer_default=True)\n    a: Any = D\ndef new():\n    return S()\n"
                "get = lambda r: r.a\n")
    if kind == "dataclass-defer":
        return (f"D = {dexpr}\nclass S(DataClass):\n    a: Any = Field(default=D, defer_default=True)\ndef new():\n    return S()\n"
                "get = lambda r: r.a\n")
    if kind == "schema-defer-factory":
        return (f"D = {dexpr}\nclass S(Schema):\n    a: Any = Field(default_factory=lambda: D, defer_default=True)\ndef new():\n"
                "    return S()\nget = lambda r: r.a\n")
    if kind == "schema-force-default":
        # force_default: every absent optional field takes (a fresh copy of) the option's value
        return (f"D = {dexpr}\nclass S(Schema):\n    __options__ = Options(force_default=D)\n    a: Any = Field(required=False)\n"
                "    b: Any = Field(required=False)\ndef new():\n    return S()\nget = lambda r: [r.a, r.b]\n")
    if kind == "schema-force-default-runtime":
        return (f"D = {dexpr}\nclass S(Schema):\n    a: Any = Field(required=False)\n    b: Any = None\n"
                "OPT = Options(force_default=D)\ndef new():\n    return S.__from__({}, options=OPT)\nget = lambda r: [r.a, r.b]\n")
    if kind in FRESH_KINDS:
        base = "DataClass" if kind.startswith("dataclass") else "Schema"
        sub = "class S(S0):\n    n: int = 0\n" if kind.endswith("-sub") else ""
        return (f"import itertools as _it\nCOUNTER = _it.count()\nD = None\nclass {'S0' if sub else 'S'}({base}):\n"
                f"    a: Any = Field(default_factory=lambda: {dexpr})\n{sub}def new():\n    return S()\nget = lambda r: r.a\n")
    if kind == "schema-lax-const":
        # a lax constant replaces whatever is given: what comes back is a value of the instance, not the declared object
        tn = type(ev(dexpr)).__name__
        return (f"D = {dexpr}\nclass S(Schema):\n    a: {tn} = Field(const=Lax(D))\ndef new():\n    return S(a={tn}())\n"
                "get = lambda r: r.a\n")
    if kind == "rule-lax-enum":
        return (f"D = {dexpr}\nR_ = RC(None, enum=Lax([D, 5]))\ndef new():\n    return type_transform('other', R_)\nget = lambda r: r\n")
    if kind == "func-plain":
        return f"D = {dexpr}\n@utype.parse\ndef F(a: Any = D, n: int = 0):\n    return a\ndef new():\n    return F()\nget = lambda r: r\n"
    if kind == "func-posonly":
        return f"D = {dexpr}\n@utype.parse\ndef F(a: Any = D, /, n: int = 0):\n    return a\ndef new():\n    return F()\nget = lambda r: r\n"
    if kind == "func-kwonly":
        return f"D = {dexpr}\n@utype.parse\ndef F(*, a: Any = D):\n    return a\ndef new():\n    return F()\nget = lambda r: r\n"
    if kind == "func-param":
        return f"D = {dexpr}\n@utype.parse\ndef F(a: Any = Param(D)):\n    return a\ndef new():\n    return F()\nget = lambda r: r\n"
    raise ValueError(kind)


def mutate_all_levels(v):
    """in-place mutation of a container at every nesting level it exposes"""
    if isinstance(v, list):
        for x in list(v):
            mutate_all_levels(x)
        v.append("MUT")
    elif isinstance(v, dict):
        for x in list(v.values()):
            mutate_all_levels(x)
        v["MUT"] = "MUT"
    elif isinstance(v, set):
        v.add("MUT")
    elif isinstance(v, bytearray):
        v.extend(b"MUT")
    elif isinstance(v, deque):
        v.append("MUT")
    elif isinstance(v, tuple):
        for x in v:
            mutate_all_levels(x)


def _defaults(acc, kind, di, tier):
    dexpr = (DEFAULTS + FRESH_DEFAULTS)[di]
    maxlen = 5 if tier == "thorough" else 4
    src = decl_source(kind, dexpr)
    counter = "COUNTER" in dexpr
    declared = canon(ev(dexpr)) if not counter else None
    if kind.startswith("schema-force-default"):
        declared = canon([ev(dexpr), ev(dexpr)])      # both absent fields read the forced value, independently
    factory = kind in ("schema-factory", "schema-defer-factory")
    fresh_factory = kind in FRESH_KINDS
    for n in range(1, maxlen + 1):
        for hist in itertools.product(("new", "mut-first", "mut-last"), repeat=n):
            if hist[0] != "new":
                continue
            env = dict(_NS)
            env["__name__"] = "utmc.ns"
            try:
                exec(src, env)
            except Exception as e:
                acc.extra["declarations_rejected_at_build"] += 1
                return
            results = []
            touched = set()
            acc.states += 1
            bad = None
            for step, op in enumerate(hist):
                acc.transitions += 1
                if op == "new":
                    results.append(env["new"]())
                elif results:
                    idx = 0 if op == "mut-first" else len(results) - 1
                    mutate_all_levels(env["get"](results[idx]))
                    if "defer" not in kind:
                        touched.add(idx)       # (a deferred default is documented to yield a new object on every access)
                # invariant
                for j, r in enumerate(results):
                    if j in touched:
                        continue
                    if canon(env["get"](r)) != (declared if not counter else canon([j])):
                        bad = (f"after {list(hist[:step + 1])} result #{j} (never mutated) reads {short(env['get'](r), 60)} instead of "
                               f"the declared default {dexpr}", "result-changed")
                        break
                if not bad and not factory and not fresh_factory and canon(env["D"]) != canon(ev(dexpr)):
                    bad = (f"after {list(hist[:step + 1])} the declared default object itself is now {short(env['D'], 60)}", "default-object-changed")
                if not bad and touched:
                    fresh = env["new"]()
                    acc.transitions += 1
                    if counter:
                        results.append(fresh)       # it took the next number
                    if not factory and not counter and canon(env["get"](fresh)) != declared:
                        bad = (f"after {list(hist[:step + 1])} a fresh instance / call sees {short(env['get'](fresh), 60)} instead of {dexpr}",
                               "fresh-sees-mutation")
                if bad:
                    break
            acc.evaluations += 1
            acc.nontrivial_add((kind, dexpr, hist))
            acc.outcomes["violation" if bad else "isolated"] += 1
            if bad:
                fp = f"C19|defaults|{kind}|{dexpr}|{bad[1]}"
                script = "\n".join(["import sys", "sys.path.insert(0, '/verif')", "from utmc.ns import *", "from utmc.props import c19",
                                    "from utmc.canon import canon", src, f"hist = {list(hist)!r}", "results = []; touched = set()",
                                    "for op in hist:", "    if op == 'new': results.append(new())",
                                    "    else:", "        i = 0 if op == 'mut-first' else len(results) - 1",
                                    "        c19.mutate_all_levels(get(results[i])); touched.add(i)",
                                    f"declared = canon({dexpr}) if not {kind.startswith('schema-force-default')!r} else canon([{dexpr}, {dexpr}])",
                                    "bad = any(canon(get(r)) != declared for j, r in enumerate(results) if j not in touched)",
                                    f"bad = bad or ({not factory!r} and (canon(D) != canon({dexpr}) or canon(get(new())) != declared))",
                                    "print([get(r) for r in results], D); sys.exit(1 if bad else 0)"]) + "\n"
                acc.violation(fp, f"{kind} with default {dexpr}: {bad[0]}", script)
            elif acc.states % 29 == 0:
                acc.sample(dict(declaration=kind, default=dexpr, history=list(hist), outcome="isolated"))


# ------------------------------------------------------------------------------------------------ (b')
# an immutable input (text, bytes, tuple of scalars) is parsed, the result is mutated in place at every nesting level, and the
# same input is parsed again: the second result equals the first one as it was -- nothing of a result is kept by the library

REPARSE_TYPES = ["list", "List[dict]", "List[list]", "List[Any]", "tuple", "Tuple[list, dict]", "set", "dict", "Dict[str, list]",
                 "Dict[str, Any]", "Any", "Union[list, dict]", "Optional[List[dict]]", "SC('S', Schema, None, a=(list,), b=(dict, {}))",
                 "SC('S', DataClass, None, a=(List[dict],))"]
REPARSE_INPUTS = ["'[{\"a\": [1]}, [2, [3]]]'", "'[[1, 2], [3]]'", "'{\"k\": [1, {\"z\": []}]}'", "'{\"a\": [[1]], \"b\": {\"c\": []}}'",
                  "b'[{\"a\": []}]'", "'[]'", "'{}'", "'a,b'", "'a=1&b=2'", "'[1, \"x\"]'", "'{\"a\": [{\"a\": 1}]}'",
                  "(('a', 1), ('b', 2))", "'[[\"a\", [1]]]'"]


def _reparse(acc, ti, tier):
    texpr = REPARSE_TYPES[ti]
    t = eval(f"T({texpr})" if not texpr.startswith("SC(") else texpr, _NS)
    for oi, opts in enumerate(OPTSETS[:5]):
        o = _NS["Options"](**opts)
        for vx in REPARSE_INPUTS:
            for rounds in (1, 2):
                acc.states += 1
                outs = []
                ok = True
                for k in range(rounds + 1):
                    st, y = call_guarded(lambda: _NS["type_transform"](ev(vx), t, options=o), wall_s=1.0, step_budget=400_000)
                    acc.transitions += 1
                    if st != "ok":
                        ok = False
                        break
                    outs.append(canon(y))
                    mutate_all_levels(y)
                    if hasattr(type(y), "__parser__"):
                        for v in (list(dict.values(y)) if isinstance(y, dict) else list(y.__dict__.values())):
                            mutate_all_levels(v)
                acc.evaluations += 1
                acc.outcomes["reparse:" + ("ok" if ok else "rejected")] += 1
                if not ok:
                    continue
                acc.nontrivial_add((texpr, oi, vx, rounds))
                if any(c != outs[0] for c in outs[1:]):
                    fp = f"C19|reparse|{texpr.split('(')[0] if texpr.startswith('SC(') else texpr}|{e1.value_shape(ev(vx))}|{','.join(sorted(opts)) or 'default'}"
                    acc.violation(fp, f"type_transform({vx}, {texpr}) opts={opts}: parsed, the result mutated in place, parsed again -> "
                                      f"the parses give {[short(c, 70) for c in outs]}",
                                  "\n".join(["import sys", "sys.path.insert(0, '/verif')", "from utmc.ns import *", "from utmc.props import c19",
                                             "from utmc.canon import canon", f"t = {'T(' + texpr + ')' if not texpr.startswith('SC(') else texpr}",
                                             f"o = Options(**{opts!r})", "outs = []", f"for k in range({rounds + 1}):",
                                             f"    y = type_transform({vx}, t, options=o); outs.append(canon(y)); c19.mutate_all_levels(y)",
                                             "    if hasattr(type(y), '__parser__'):",
                                             "        for v in (list(dict.values(y)) if isinstance(y, dict) else list(y.__dict__.values())): c19.mutate_all_levels(v)",
                                             "print(outs); sys.exit(1 if any(c != outs[0] for c in outs[1:]) else 0)"]) + "\n")
        if oi == 0:
            acc.sample(dict(scenario="reparse", type=texpr, inputs=len(REPARSE_INPUTS)))


# ------------------------------------------------------------------------------------------------ (c)

TYPES_SRC = '''
class Inner(Schema):
    w: PositiveInt
class S(Schema):
    a: int
    u: Union[PositiveInt, List[int], None] = None
    i: Optional[Inner] = None
    x: Int ^ Literal['a', 'b'] = 1
@utype.parse
def F(a: int, *args: PositiveInt, u: Union[date, int] = 0, **kw: int):
    return a, args, u, kw
LST = T(List[PositiveInt])
class Dep(Schema):
    a: int = Field(required=False, dependencies=['p'])
    b: int = Field(required=False, dependencies=['q'])
    p: int = 0
    q: int = 0
@utype.parse
def DF(a: int = Param(None, dependencies=['p']), b: int = Param(None, dependencies=['q']), p: int = None, q: int = None):
    return a, b, p, q
class Keyed(Schema):
    __options__ = Options(cast_keyword_str=True, addition=True)
    v: int = 0
class Item(Schema):
    __options__ = Options(case_insensitive=True)
    size: Union[PositiveInt, str] = 1
@utype.parse(options=Options(ignore_constraints=True))
def SZ(size: Union[PositiveInt, str] = 1):
    return size
@utype.parse
def G(a: int, *rest: PositiveInt) -> Generator[int, None, None]:
    yield a
    for r in rest:
        yield r
@utype.parse
async def CO(a: int, b: PositiveInt = 1) -> int:
    return a + b
@utype.parse
async def AG(a: PositiveInt) -> AsyncGenerator[int, None]:
    yield a
    yield '2'
def drain(agen):
    out = []
    while True:
        try:
            out.append(run_coro(agen.__anext__()))
        except StopAsyncIteration:
            return out
'''
CALL_KINDS = [
    ("schema-ok", "S(a='1', u=['2', 3], i={'w': 4}, x='a')"),
    # one union type parsed under different options: what the probing stages of one parse were given is that parse's alone
    ("item-plain", "Item(size=-3)"),
    ("item-ignore-constraints", "Item.__from__({'size': -3}, options=Options(ignore_constraints=True))"),
    ("item-no-explicit-cast", "Item.__from__({'SIZE': '5'}, options=Options(no_explicit_cast=True, case_insensitive=True))"),
    ("item-mode", "Item.__from__({'size': 2.5}, options=Options(mode='r', no_data_loss=True))"),
    ("sizefunc-ignore-constraints", "SZ(-3)"),
    ("schema-fail", "S(a='x', u=-1)"),
    ("schema-collect-fail", "S.__from__({'a': 'x', 'u': 'y', 'i': {'w': -1}, 'x': 'zz'}, options=Options(collect_errors=True))"),
    ("schema-union-last-stage", "S(a=1, u='5')"),
    ("schema-union-all-fail", "S(a=1, u={'k': 1})"),
    ("func-ok", "F('1', '2', 3, u='2020-01-02', k='4')"),
    ("func-fail", "F('1', -2)"),
    ("rule-exclude", "type_transform([1, -1, 'x', '2'], LST, options=Options(invalid_items='exclude'))"),
    ("rule-fail", "LST([1, -1])"),
    ("gen-ok", "list(G('1', '2', 3))"),
    ("gen-fail", "list(G('1', -2))"),
    ("gen-fail-first", "list(G('x'))"),
    ("coro-ok", "run_coro(CO('1', '2'))"),
    ("coro-fail", "run_coro(CO(1, -1))"),
    ("agen-ok", "drain(AG('3'))"),
    ("agen-fail", "drain(AG(-3))"),
    # several fields with different dependencies: the per-call bookkeeping must not leak into the declaration
    ("dep-both", "Dep(a=1, b=2, p=3, q=4)"),
    ("dep-both-fail", "Dep(a=1, b=2)"),
    ("dep-first-only", "Dep(a=1, p=3)"),
    ("dep-second-only", "Dep(b=1, q=3)"),
    ("depfunc-both", "DF(a=1, b=2, p=3, q=4)"),
    ("depfunc-first-only", "DF(a=1, p=3)"),
    ("keyed-int-keys", "sorted(map(str, Keyed.__from__({1: 2, 'v': '3'}).items()))"),
    # texts whose reading depends on a format choice: the choice made for one value is not remembered for the next
    ("date-day-first", "type_transform('03/04/2023', date)"),
    ("date-month-first-only", "type_transform('12/25/2023', date)"),
    ("date-day-first-only", "type_transform('25/12/2023', datetime)"),
    ("date-invalid", "type_transform('13/13/2023', date)"),
]
_SEQ = [0]


def fresh_env():
    import typing
    for f in typing._cleanups:
        f()
    _SEQ[0] += 1
    mod = types.ModuleType(f"utmc_c19_{_SEQ[0]}")
    mod.__dict__.update(_NS)
    mod.__dict__["__name__"] = mod.__name__
    sys.modules[mod.__name__] = mod
    from .c08 import run_coro
    mod.__dict__["run_coro"] = run_coro
    exec(TYPES_SRC, mod.__dict__)
    return mod


def run_call(mod, expr):
    try:
        return ("ok", canon(eval(expr, mod.__dict__)))
    except Exception as e:
        return ("exc", type(e).__name__, str(e))


def _history(acc, first, tier):
    n = 3 if tier == "thorough" else 2
    base = {}
    for name, expr in CALL_KINDS:
        m = fresh_env()
        base[name] = run_call(m, expr)
        sys.modules.pop(m.__name__, None)
    rest = list(range(len(CALL_KINDS)))
    for tail in itertools.product(rest, repeat=n - 1):
        seq = (first,) + tail
        m = fresh_env()
        acc.states += 1
        out = None
        for i in seq:
            acc.transitions += 1
            out = run_call(m, CALL_KINDS[i][1])
        sys.modules.pop(m.__name__, None)
        acc.evaluations += 1
        acc.nontrivial_add(seq)
        last = CALL_KINDS[seq[-1]][0]
        acc.outcomes[out[0]] += 1
        if out != base[last]:
            names = [CALL_KINDS[i][0] for i in seq]
            fp = f"C19|history|{'>'.join(names[:-1])}|{last}"
            script = "\n".join(["import sys", "sys.path.insert(0, '/verif')", "from utmc.props import c19",
                                "m = c19.fresh_env()", f"alone = c19.run_call(m, {CALL_KINDS[seq[-1]][1]!r})", "m = c19.fresh_env()",
                                f"for e in {[CALL_KINDS[i][1] for i in seq]!r}: out = c19.run_call(m, e)",
                                "print('alone   :', alone); print('in order:', out)", "sys.exit(0 if out == alone else 1)"]) + "\n"
            acc.violation(fp, f"after {names[:-1]} the call {last} gives {short(out, 120)}; run first on fresh types it gives "
                              f"{short(base[last], 120)}", script)
        elif acc.states % 17 == 0:
            acc.sample(dict(sequence=[CALL_KINDS[i][0] for i in seq], last_outcome=short(out, 80)))
    try:
        from utype.parser import base as _pb
        _pb.__parsers__.clear()
    except Exception:
        pass
