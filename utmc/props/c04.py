"""C04 — invalid input raises ParseError and nothing else; parsing always terminates.

E1 with a deterministic watchdog: every (declaration, call form, options, input) of the alphabets is
executed on the real library; the outcome must be a value or an instance of utype.exc.ParseError.
"""
from ..core import Acc, bootstrap

bootstrap()
from .. import e1, spec as S, typegram as tg   # noqa: E402
from ..universe import all_atoms, ev, ELEM_REPS  # noqa: E402
from ..canon import short  # noqa: E402
from .. import inputs as I  # noqa: E402

ID = "C04"
LEVEL = "model_checking"
RULE = ("product space: declarations of the type grammar x call forms (T(x), type_transform, Schema/DataClass field, "
        "function parameter / keyword / *args / **kwargs / return) x option sets x the full atom alphabet plus "
        "type-directed containers; state = one (declaration, form, options, input) configuration, transition = one "
        "library call; a case is non-trivial when the library had to convert or reject (outcome is not the input "
        "object itself)")
ASSUMPTIONS = [
    "non-termination is decided by a deterministic budget of 4e5 Python line events (wall-clock only triggers the "
    "counted re-run); a C-level call that never returns would not be classified",
    "bare type_transform on plain builtin targets is outside the statement; plain leaves are exercised through "
    "data-class fields and function parameters",
    "recursive declarations on cyclic input without max_depth raise RecursionError by documented design "
    "(options.md, max_depth) and belong to C18, not here",
]

OPTSETS = [
    {},
    {"no_explicit_cast": True},
    {"no_data_loss": True},
    {"no_explicit_cast": True, "no_data_loss": True},
    {"collect_errors": True},
    {"collect_errors": True, "no_data_loss": True},
    {"invalid_items": "exclude", "invalid_keys": "exclude", "invalid_values": "exclude"},
    {"invalid_items": "preserve", "invalid_keys": "preserve", "invalid_values": "preserve"},
    {"collect_errors": True, "invalid_items": "exclude"},
]
QUICK_OPTS = [0, 2, 3, 4, 6, 7]


def spec_universe(tier):
    specs = []
    specs += tg.constrained_specs()
    specs += tg.lax_specs()
    specs += tg.mixed_specs(routes=("cls", "ann") if tier == "thorough" else ("cls",))
    specs += tg.literal_specs()
    specs += tg.SHIPPED
    specs += tg.generic_specs(depth=2 if tier == "thorough" else 1,
                              elems=None if tier == "thorough" else tg.REP_ELEMS_Q)
    if tier == "thorough":
        specs += tg.logical_specs(arities=(2,))
        specs += tg.logical_specs(leaves=tg.LOGIC_LEAVES[:6], arities=(3,), with_not=False)
    else:
        specs += tg.logical_specs(leaves=tg.LOGIC_LEAVES[:9])
    specs += tg.dataclass_specs()
    leaf = tg.leaf_specs()
    return specs, leaf


def forms_for(spec, tier):
    k = spec[0]
    if k == "t":
        return ["field", "dfield", "param", "ret", "args", "kwargs"] if tier == "thorough" else ["field", "param", "args"]
    if k == "dc":
        return ["dccall", "dcfrom", "field"]
    if not e1.is_utype_type(S.build(spec)):
        # the declaration collapsed to a plain class (e.g. Optional[None]): only data-class / function contexts
        return ["field", "param"]
    f = ["call", "tt"]
    if tier == "thorough":
        f += ["field", "param", "ret", "kwargs"]
    else:
        f += ["field"] if k in ("g", "gc") else []
    return f


def bounds(tier):
    specs, leaf = spec_universe(tier)
    return dict(declarations=len(specs) + len(leaf), atoms=len(all_atoms()),
                option_sets=len(OPTSETS) if tier == "thorough" else len(QUICK_OPTS),
                container_len=3 if tier == "thorough" else 2, step_budget=400_000)


CHUNK = 6


def shards(tier):
    specs, leaf = spec_universe(tier)
    allspecs = leaf + specs
    return [("specs", i, min(i + CHUNK, len(allspecs))) for i in range(0, len(allspecs), CHUNK)]


def run_shard(shard, tier):
    _, lo, hi = shard
    specs, leaf = spec_universe(tier)
    allspecs = (leaf + specs)[lo:hi]
    acc = Acc()
    atoms = all_atoms()
    optidx = range(len(OPTSETS)) if tier == "thorough" else QUICK_OPTS
    for sp in allspecs:
        vals = atoms + I.directed_inputs(sp, k=3 if tier == "thorough" else 2)
        seen_v = set()
        vals = [v for v in vals if not (v in seen_v or seen_v.add(v))]
        for form in forms_for(sp, tier):
            for oi in optidx:
                opts = OPTSETS[oi]
                if form in ("call", "dccall") and opts:
                    continue
                try:
                    fn, _, _ = e1.caller(sp, form, opts)
                except Exception as e:
                    acc.notes.append(f"declaration not accepted: {S.type_expr(sp)} form={form} opts={opts}: "
                                     f"{type(e).__name__}: {short(e, 80)}")
                    acc.extra["declarations_rejected_at_build"] += 1
                    continue
                for vx in vals:
                    if fn.entered is not None:
                        del fn.entered[:]
                    kind, payload = e1.run_case(sp, form, opts, vx)
                    acc.states += 1
                    acc.transitions += 1
                    acc.evaluations += 1
                    acc.outcomes[kind] += 1
                    if kind != "value" or True:
                        pass
                    if kind == "value":
                        if acc.states % 997 == 0:
                            acc.sample(dict(decl=S.type_expr(sp), form=form, options=opts, input=vx,
                                            outcome="value " + short(payload, 60)))
                        acc.nontrivial_add((sp, form, oi, vx)) if _converted(vx, payload) else None
                        continue
                    if kind == "perr":
                        acc.nontrivial_add((sp, form, oi, vx))
                        if fn.entered:
                            fp = f"C04|body-entered|{form}|{S.shape(sp)}"
                            acc.violation(fp, f"{S.type_expr(sp)} form={form} opts={opts} input={vx}: parse failed "
                                              f"with {type(payload).__name__} but the function body had been entered",
                                          e1.script(sp, form, opts, vx, ["bad = out[0] != 'value' and bool(ENTERED)"]))
                        if acc.states % 499 == 0:
                            acc.sample(dict(decl=S.type_expr(sp), form=form, options=opts, input=vx,
                                            outcome="ParseError " + short(payload, 60)))
                        continue
                    acc.nontrivial_add((sp, form, oi, vx))
                    try:
                        xs = e1.value_shape(ev(vx))
                    except Exception:
                        xs = "?"
                    if kind == "nonterm":
                        fp = f"C04|nonterm|{_root(sp)}|{xs}"
                        acc.violation(fp, f"{S.type_expr(sp)} form={form} opts={opts} input={vx}: no result within "
                                          f"{payload} line events", _nonterm_script(sp, form, opts, vx))
                    else:
                        e = payload
                        site = e1.innermost_utype_frame(e)
                        if (sp[0] == "dc" and site == "parser/cls.py:init_dataclass" and isinstance(e, TypeError)
                                and "keywords must be strings" in str(e)):
                            # excluded by the statement: non-string keys at the top level of a data class
                            acc.extra["out_of_scope_nonstring_toplevel_keys"] += 1
                            continue
                        if site == "outside-utype":
                            raise RuntimeError(f"harness error: exception raised outside utype for {S.type_expr(sp)} "
                                               f"form={form} input={vx}: {type(e).__name__}: {e}")
                        fp = f"C04|escape|{type(e).__name__}|{site}|{_root(sp)}|{xs}"
                        acc.violation(fp, f"{S.type_expr(sp)} form={form} opts={opts} input={vx}: "
                                          f"{type(e).__name__}: {short(e, 100)} (innermost utype frame {site})",
                                      e1.script(sp, form, opts, vx, ["bad = out[0] == 'other-exception'"]),
                                      dict(decl=S.type_expr(sp), form=form, options=opts, input=vx,
                                           exception=type(e).__name__, site=site))
        e1.reset_callers()
    return acc


def _converted(vx, result):
    try:
        return type(ev(vx)) is not type(result)
    except Exception:
        return True


def _root(sp):
    k = sp[0]
    if k == "t":
        return sp[1]
    if k == "n":
        return sp[1]
    if k == "r":
        return f"rule:{sp[1]}"
    if k in ("g", "gc"):
        return sp[1]
    if k == "op":
        return "op" + sp[1]
    return k


def _nonterm_script(sp, form, opts, vx):
    _, setup, call_code = e1.caller(sp, form, opts)
    return "\n".join([
        "import sys, signal", "sys.path.insert(0, '/verif')", "from utmc.ns import *", setup, f"x = {vx}",
        "def _alarm(*a):", "    print('no result after 20 s: does not terminate'); sys.exit(1)",
        "signal.signal(signal.SIGALRM, _alarm); signal.alarm(20)",
        "try:", f"    r = {call_code}", "    print('value', r)", "except Exception as e:",
        "    print(type(e).__name__, e)", "sys.exit(0)"]) + "\n"
