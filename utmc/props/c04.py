"""C04 — invalid input raises ParseError and nothing else; parsing always terminates.

E1 with a deterministic watchdog: every (declaration, call form, options, input) of the alphabets is
executed on the real library; the outcome must be a value or an instance of utype.exc.ParseError.
"""
from ..core import Acc, bootstrap

bootstrap()
from .. import e1, spec as S, typegram as tg   # noqa: E402
from ..universe import all_atoms, ev, ELEM_REPS  # noqa: E402
from ..canon import short  # noqa: E402
from .. import inputs as I  # noqa: E402

ID = "C04"
LEVEL = "model_checking"
RULE = ("product space: declarations of the type grammar x call forms (T(x), type_transform, Schema/DataClass field, "
        "function parameter / keyword / *args / **kwargs / return) x option sets x the full atom alphabet plus "
        "type-directed containers; state = one (declaration, form, options, input) configuration, transition = one "
        "library call; a case is non-trivial when the library had to convert or reject (outcome is not the input "
        "object itself)")
ASSUMPTIONS = [
    "non-termination is decided by a deterministic budget of 4e5 Python line events (wall-clock only triggers the "
    "counted re-run); a C-level call that never returns would not be classified",
    "bare type_transform on plain builtin targets is outside the statement; plain leaves are exercised through "
    "data-class fields and function parameters",
    "recursive declarations on cyclic input without max_depth raise RecursionError by documented design "
    "(options.md, max_depth) and belong to C18, not here",
]

OPTSETS = [
    {},
    {"no_explicit_cast": True},
    {"no_data_loss": True},
    {"no_explicit_cast": True, "no_data_loss": True},
    {"collect_errors": True},
    {"collect_errors": True, "no_data_loss": True},
    {"invalid_items": "exclude", "invalid_keys": "exclude", "invalid_values": "exclude"},
    {"invalid_items": "preserve", "invalid_keys": "preserve", "invalid_values": "preserve"},
    {"collect_errors": True, "invalid_items": "exclude"},
    {"addition": False},
    {"addition": False, "collect_errors": True},
]
QUICK_OPTS = [0, 2, 3, 4, 6, 7, 9]
# values that make building an error message fail (repr / str of the offending value)
HOSTILE_EXTRA = ["BadRepr()", "10**5000", "nested_list(3000)", "BadStr()", "BadEq()"]


def spec_universe(tier):
    specs = []
    specs += tg.constrained_specs()
    specs += tg.lax_specs()
    specs += tg.contains_specs()
    specs += tg.mixed_specs(routes=("cls", "ann") if tier == "thorough" else ("cls",))
    specs += tg.literal_specs()
    specs += tg.SHIPPED
    specs += tg.generic_specs(depth=2 if tier == "thorough" else 1,
                              elems=None if tier == "thorough" else tg.REP_ELEMS_Q)
    if tier == "thorough":
        specs += tg.logical_specs(arities=(2,))
        specs += tg.logical_specs(leaves=tg.LOGIC_LEAVES[:6], arities=(3,), with_not=False)
    else:
        specs += tg.logical_specs(leaves=tg.LOGIC_LEAVES[:9])
    specs += tg.dataclass_specs()
    leaf = tg.leaf_specs()
    return specs, leaf


def forms_for(spec, tier):
    k = spec[0]
    if k == "t":
        return ["field", "dfield", "param", "ret", "args", "kwargs"] if tier == "thorough" else ["field", "param", "args"]
    if k == "dc":
        return ["dccall", "dcfrom", "field"]
    if not e1.is_utype_type(S.build(spec)):
        # the declaration collapsed to a plain class (e.g. Optional[None]): only data-class / function contexts
        return ["field", "param"]
    f = ["call", "tt"]
    if tier == "thorough":
        f += ["field", "param", "ret", "kwargs"]
    else:
        f += ["field"] if k in ("g", "gc") else []
    return f


def bounds(tier):
    specs, leaf = spec_universe(tier)
    return dict(declarations=len(specs) + len(leaf), atoms=len(all_atoms()),
                option_sets=len(OPTSETS) if tier == "thorough" else len(QUICK_OPTS),
                container_len=3 if tier == "thorough" else 2, step_budget=400_000)


CHUNK = 6


def shards(tier):
    specs, leaf = spec_universe(tier)
    allspecs = leaf + specs
    return [("specs", i, min(i + CHUNK, len(allspecs))) for i in range(0, len(allspecs), CHUNK)] + [("extra", "discriminator", 0), ("extra", "cast-keys", 0), ("extra", "function-duplicate", 0)]


DISCRIMINATOR_SRC = '''
class Cat(Schema):
    kind: Literal['cat']
    n: int
class Dog(Schema):
    kind: Literal['dog']
    n: int = 0
class Owner(Schema):
    pet: Union[Cat, Dog] = Field(discriminator='kind')
    pets: List[Union[Cat, Dog]] = Field(default_factory=list)
class OwnerD(DataClass):
    pet: Union[Cat, Dog] = Field(discriminator='kind')
'''
DISCRIMINATOR_INPUTS = ["{'pet': {'kind': 'cat', 'n': 1}}", "{'pet': {'kind': 'dog'}}", "{'pet': {'kind': ['v']}}", "{'pet': {'kind': {}}}",
                        "{'pet': {'kind': BadEq()}}", "{'pet': {'kind': None}}", "{'pet': {}}", "{'pet': 5}", "{'pet': None}",
                        "{'pet': [('kind', 'cat'), ('n', 1)]}", "{'pet': '{\"kind\": \"cat\", \"n\": 2}'}", "{'pet': 'kind=dog'}",
                        "{'pet': {'kind': 'cat', 'n': 'x'}}", "{'pet': {'kind': 'bird'}}", "{'pet': BadStr()}", "{'pet': object()}",
                        "{'pet': [{'kind': 'cat', 'n': 1}]}", "{'pet': {'kind': 'cat', 'n': 1}, 'pets': [{'kind': ['v']}]}",
                        "{'pet': {'kind': 'cat', 'n': 1}, 'pets': [{'kind': 'dog'}, 5]}", "{'pet': {1: 2}}", "{'pet': self_dict('kind')}"]


def _discriminator(acc):
    from ..universe import _NS
    env = dict(_NS)
    env["__name__"] = "utmc.ns"
    exec(DISCRIMINATOR_SRC, env)
    for cname in ("Owner", "OwnerD"):
        for oi, opts in enumerate(OPTSETS[:6]):
            o = env["Options"](**opts)
            for vx in DISCRIMINATOR_INPUTS:
                if cname == "OwnerD" and "pets" in vx:
                    continue
                acc.states += 1
                acc.transitions += 1
                acc.evaluations += 1
                st, payload = e1.call_guarded(lambda: env[cname].__from__(ev(vx), options=o), wall_s=1.0, step_budget=400_000)
                kind, payload = e1.classify(st, payload)
                acc.outcomes[kind] += 1
                acc.nontrivial_add((cname, oi, vx))
                if acc.states % 17 == 0:
                    acc.sample(dict(decl=cname + " (discriminated union field)", options=opts, input=vx, outcome=kind))
                if kind in ("value", "perr"):
                    continue
                if kind == "nonterm":
                    fp = f"C04|nonterm|discriminator|{cname}"
                    msg = f"no result within {payload} line events"
                else:
                    site = e1.innermost_utype_frame(payload)
                    fp = f"C04|escape|{type(payload).__name__}|{site}|discriminator|{cname}"
                    msg = f"{type(payload).__name__}: {short(payload, 100)} (innermost utype frame {site})"
                acc.violation(fp, f"{cname} (discriminated union field) opts={opts} input={vx}: {msg}",
                              "\n".join(["import sys", "sys.path.insert(0, '/verif')", "from utmc.ns import *", DISCRIMINATOR_SRC,
                                         f"try:\n    print({cname}.__from__({vx}, options=Options(**{opts!r}))); sys.exit(0)",
                                         "except exc.ParseError as e:\n    print('ParseError', e); sys.exit(0)",
                                         "except Exception as e:\n    print(type(e).__name__, e); sys.exit(1)"]) + "\n")


CASTKEYS_SRC = '''
class K(Schema):
    __options__ = Options(cast_keyword_str=True, addition=True)
    v: int = 0
class KD(DataClass):
    __options__ = Options(cast_keyword_str=True)
    v: int = 0
class Holder(Schema):
    k: K = None
    ks: List[K] = Field(default_factory=list)
'''
# mappings whose keys cannot be (or can only hostilely be) turned into str
CASTKEYS_INPUTS = ["{1: 2}", "{'v': 1, 2: 3}", "{b'\\xff': 1}", "{b'name': 1}", "{(1, 2): 1}", "{None: 1}", "{1.5: 1}", "{BadStr(): 1}",
                   "{BadRepr(): 1}", "{True: 1, 'v': '2'}", "{Color.RED: 1}", "{frozenset({1}): 2}", "{10**5000: 1}", "{'v': 1}"]
CASTKEYS_OPTS = [{}, {"no_data_loss": True}, {"no_explicit_cast": True}, {"no_data_loss": True, "no_explicit_cast": True},
                 {"collect_errors": True}, {"no_data_loss": True, "collect_errors": True}]


def _castkeys(acc):
    """data classes that cast their keys to str (cast_keyword_str): a key whose conversion fails is a parse error"""
    from ..universe import _NS
    env = dict(_NS)
    env["__name__"] = "utmc.ns"
    exec(CASTKEYS_SRC, env)
    forms = {
        "K.__from__": lambda x, o: env["K"].__from__(x, options=o),
        "KD.__from__": lambda x, o: env["KD"].__from__(x, options=o),
        "type_transform(x, K)": lambda x, o: env["type_transform"](x, env["K"], options=o),
        "Holder(k=x)": lambda x, o: env["Holder"].__from__({"k": x}, options=o),
        "Holder(ks=[x])": lambda x, o: env["Holder"].__from__({"ks": [x]}, options=o),
    }
    for fname, fn in forms.items():
        for oi, opts in enumerate(CASTKEYS_OPTS):
            # the strictness flags reach a data class through the options it is parsed with
            o = env["Options"](cast_keyword_str=True, **opts)
            for vx in CASTKEYS_INPUTS:
                acc.states += 1
                acc.transitions += 1
                acc.evaluations += 1
                st, payload = e1.call_guarded(lambda: fn(ev(vx), o), wall_s=1.0, step_budget=400_000)
                kind, payload = e1.classify(st, payload)
                acc.outcomes[kind] += 1
                acc.nontrivial_add((fname, oi, vx))
                if acc.states % 23 == 0:
                    acc.sample(dict(decl=fname + " (cast_keyword_str)", options=opts, input=vx, outcome=kind))
                if kind in ("value", "perr"):
                    continue
                if kind == "nonterm":
                    fp = f"C04|nonterm|cast-keys|{fname}"
                    msg = f"no result within {payload} line events"
                else:
                    site = e1.innermost_utype_frame(payload)
                    fp = f"C04|escape|{type(payload).__name__}|{site}|cast-keys|{fname}"
                    msg = f"{type(payload).__name__}: {short(payload, 100)} (innermost utype frame {site})"
                acc.violation(fp, f"{fname} (cast_keyword_str) opts={opts} input={vx}: {msg}",
                              "\n".join(["import sys", "sys.path.insert(0, '/verif')", "from utmc.ns import *", "from utmc.props import c04",
                                         "acc = c04.Acc(); c04._castkeys(acc)",
                                         f"hits = [fp for fp in acc.violations if fp.endswith({('cast-keys|' + fname)!r})]",
                                         "for fp in hits: print(fp, acc.violations[fp][0].summary)", "sys.exit(1 if hits else 0)"]) + "\n")


FUNCDUP_SRC = '''
@utype.parse(options=Options(data_first_search=True))
def F(a: int = Param(0, alias_from=['a_old']), b: int = Param(0, case_insensitive=True), *args: int, **kwargs: int):
    return a, b, args, kwargs
@utype.parse(options=Options(data_first_search=True, collect_errors=True))
def G(a: int = Param(0, alias_from=['a_old']), b: int = Param(0, case_insensitive=True), **kwargs: int):
    return a, b, kwargs
'''
# a parameter given by position and again under another of its spellings: data-first lookup (declared here) resolves the
# second spelling to the parameter and drops it; what never may happen is another exception than ParseError.  (The default
# field-first strategy passes it on to **kwargs, Python then raises TypeError: recorded under C06.)
FUNCDUP_CALLS = ["F(1, a_old=2)", "F(1, a_old='x')", "F(1, 2, B=3)", "F(1, 2, B='x')", "F(1, a=2)", "F(1, 2, 3, a_old=4, B=5, zz=6)", "F('x', a_old=2)",
                 "G(1, a_old=2)", "G(1, 2, B='x', zz='y')", "G(1, A_OLD=2)", "F(a_old=1, a=2)", "F(1, zz='x')"]


def _funcdup(acc):
    from ..universe import _NS
    env = dict(_NS)
    env["__name__"] = "utmc.ns"
    exec(FUNCDUP_SRC, env)
    for call in FUNCDUP_CALLS:
        acc.states += 1
        acc.transitions += 1
        acc.evaluations += 1
        st, payload = e1.call_guarded(lambda: eval(call, env), wall_s=1.0, step_budget=400_000)
        kind, payload = e1.classify(st, payload)
        acc.outcomes[kind] += 1
        acc.nontrivial_add(("funcdup", call))
        acc.sample(dict(decl="function, data-first, a parameter given twice", call=call, outcome=kind))
        if kind in ("value", "perr"):
            continue
        if st == "exc" and isinstance(payload, TypeError) and "multiple values" in str(payload) and call.startswith(("F(1, a=2)", "F(a_old=1, a=2)")):
            continue        # the parameter's own name twice: Python's own binding error, not a parse
        site = e1.innermost_utype_frame(payload) if kind != "nonterm" else "-"
        fp = f"C04|escape|{type(payload).__name__ if kind != 'nonterm' else 'nonterm'}|{site}|function-duplicate-spelling|{call.split('(')[0]}"
        acc.violation(fp, f"data-first function, call {call}: {type(payload).__name__}: {short(payload, 100)}",
                      "\n".join(["import sys", "sys.path.insert(0, '/verif')", "from utmc.ns import *", FUNCDUP_SRC,
                                 f"try:\n    print({call}); sys.exit(0)", "except exc.ParseError as e:\n    print('ParseError', e); sys.exit(0)",
                                 "except Exception as e:\n    print(type(e).__name__, e); sys.exit(1)"]) + "\n")


def run_shard(shard, tier):
    if shard[0] == "extra":
        acc = Acc()
        if shard[1] == "discriminator":
            _discriminator(acc)
        elif shard[1] == "function-duplicate":
            _funcdup(acc)
        else:
            _castkeys(acc)
        return acc
    _, lo, hi = shard
    specs, leaf = spec_universe(tier)
    allspecs = (leaf + specs)[lo:hi]
    acc = Acc()
    atoms = all_atoms()
    optidx = range(len(OPTSETS)) if tier == "thorough" else QUICK_OPTS
    for sp in allspecs:
        vals = atoms + I.directed_inputs(sp, k=3 if tier == "thorough" else 2)
        if sp[0] == "g" and sp[1] in ("Dict", "Mapping"):
            # a key whose text cannot be made (the digit limit of int -> str): routes and messages are built from keys
            vals = vals + ["{10**5000: 1}", "{'k': 1, 10**5000: 'x'}"]
        if sp[0] == "dc":
            # an excess key / a field value that cannot be repr()'d or str()'d
            f0 = sp[2][0][0]
            vals = vals + ["{%r: 1, 'zz': %s}" % (f0, h) for h in HOSTILE_EXTRA] + ["{%r: %s}" % (f0, h) for h in HOSTILE_EXTRA]
        elif sp[0] in ("g", "gc") and sp[1] == "Tuple":
            vals = vals + ["(1, 2, %s)" % h for h in HOSTILE_EXTRA] + ["(%s,)" % h for h in HOSTILE_EXTRA]
        elif sp[0] in ("g", "gc"):
            vals = vals + ["[%s]" % h for h in HOSTILE_EXTRA] + ["{'k': %s}" % h for h in HOSTILE_EXTRA]
        if sp[0] == "r" and any(c == "contains" for c, _ in sp[2]):
            vals = vals + ["[float('inf')]", "[10**400]", "[BadStr()]", "[float('nan'), 1]", "['x', 1.5]", "[[1]]"]
        seen_v = set()
        vals = [v for v in vals if not (v in seen_v or seen_v.add(v))]
        for form in forms_for(sp, tier):
            for oi in optidx:
                opts = OPTSETS[oi]
                if form in ("call", "dccall") and opts:
                    continue
                try:
                    fn, _, _ = e1.caller(sp, form, opts)
                except Exception as e:
                    acc.notes.append(f"declaration not accepted: {S.type_expr(sp)} form={form} opts={opts}: "
                                     f"{type(e).__name__}: {short(e, 80)}")
                    acc.extra["declarations_rejected_at_build"] += 1
                    continue
                for vx in vals:
                    if fn.entered is not None:
                        del fn.entered[:]
                    kind, payload = e1.run_case(sp, form, opts, vx)
                    acc.states += 1
                    acc.transitions += 1
                    acc.evaluations += 1
                    acc.outcomes[kind] += 1
                    if kind != "value" or True:
                        pass
                    if kind == "value":
                        if acc.states % 997 == 0:
                            acc.sample(dict(decl=S.type_expr(sp), form=form, options=opts, input=vx,
                                            outcome="value " + short(payload, 60)))
                        acc.nontrivial_add((sp, form, oi, vx)) if _converted(vx, payload) else None
                        continue
                    if kind == "perr":
                        acc.nontrivial_add((sp, form, oi, vx))
                        if fn.entered:
                            fp = f"C04|body-entered|{form}|{S.shape(sp)}"
                            acc.violation(fp, f"{S.type_expr(sp)} form={form} opts={opts} input={vx}: parse failed "
                                              f"with {type(payload).__name__} but the function body had been entered",
                                          e1.script(sp, form, opts, vx, ["bad = out[0] != 'value' and bool(ENTERED)"]))
                        if acc.states % 499 == 0:
                            acc.sample(dict(decl=S.type_expr(sp), form=form, options=opts, input=vx,
                                            outcome="ParseError " + short(payload, 60)))
                        continue
                    acc.nontrivial_add((sp, form, oi, vx))
                    try:
                        xs = e1.value_shape(ev(vx))
                    except Exception:
                        xs = "?"
                    if kind == "nonterm":
                        fp = f"C04|nonterm|{_root(sp)}|{xs}"
                        acc.violation(fp, f"{S.type_expr(sp)} form={form} opts={opts} input={vx}: no result within "
                                          f"{payload} line events", _nonterm_script(sp, form, opts, vx))
                    else:
                        e = payload
                        site = e1.innermost_utype_frame(e)
                        if (sp[0] == "dc" and site == "parser/cls.py:init_dataclass" and isinstance(e, TypeError)
                                and "keywords must be strings" in str(e)):
                            # excluded by the statement: non-string keys at the top level of a data class
                            acc.extra["out_of_scope_nonstring_toplevel_keys"] += 1
                            continue
                        if site == "outside-utype" and isinstance(e, TypeError) and "make_init.<locals>" in str(e):
                            # Python refused to bind the call of the __init__ that utype generated (no utype frame runs
                            # then): the data decided that, so it is an escape like any other
                            site = "binding-of-generated-init"
                        if site == "outside-utype":
                            raise RuntimeError(f"harness error: exception raised outside utype for {S.type_expr(sp)} "
                                               f"form={form} input={vx}: {type(e).__name__}: {e}")
                        fp = f"C04|escape|{type(e).__name__}|{site}|{_root(sp)}|{xs}"
                        acc.violation(fp, f"{S.type_expr(sp)} form={form} opts={opts} input={vx}: "
                                          f"{type(e).__name__}: {short(e, 100)} (innermost utype frame {site})",
                                      e1.script(sp, form, opts, vx, ["bad = out[0] == 'other-exception'"]),
                                      dict(decl=S.type_expr(sp), form=form, options=opts, input=vx,
                                           exception=type(e).__name__, site=site))
        e1.reset_callers()
    return acc


def _converted(vx, result):
    try:
        return type(ev(vx)) is not type(result)
    except Exception:
        return True


def _root(sp):
    k = sp[0]
    if k == "t":
        return sp[1]
    if k == "n":
        return sp[1]
    if k == "r":
        return f"rule:{sp[1]}"
    if k in ("g", "gc"):
        return sp[1]
    if k == "op":
        return "op" + sp[1]
    return k


def _nonterm_script(sp, form, opts, vx):
    _, setup, call_code = e1.caller(sp, form, opts)
    return "\n".join([
        "import sys, signal", "sys.path.insert(0, '/verif')", "from utmc.ns import *", setup, f"x = {vx}",
        "def _alarm(*a):", "    print('no result after 20 s: does not terminate'); sys.exit(1)",
        "signal.signal(signal.SIGALRM, _alarm); signal.alarm(20)",
        "try:", f"    r = {call_code}", "    print('value', r)", "except Exception as e:",
        "    print(type(e).__name__, e)", "sys.exit(0)"]) + "\n"
