"""C15 — types built from a JSON Schema never crash nor emit what the schema forbids.

E1: every schema of the supported-keyword grammar (to a nesting bound) is turned into a type by the real
JsonSchemaParser; every JSON instance of the alphabet is then converted under strict options, and whatever the type
returns is JSON-encoded and validated against the *source* schema with the independent `jsonschema` validator.
"""
import itertools
import json

from ..core import Acc, bootstrap, call_guarded

bootstrap()
from ..universe import _NS        # noqa: E402
from ..canon import short         # noqa: E402

import jsonschema                                         # noqa: E402
from utype.specs.json_schema.parser import JsonSchemaParser   # noqa: E402
from utype.utils.encode import JSONEncoder               # noqa: E402
from utype.utils import exceptions as uexc               # noqa: E402

ID = "C15"
LEVEL = "model_checking"
RULE = ("product space: JSON Schemas generated from the supported keywords (type absent / null / boolean / integer / number "
        "/ string x format x numeric, length, pattern, enum, const keywords; arrays with items / prefixItems / items:false / "
        "minItems / maxItems / uniqueItems; objects with properties named a, a-b, class, 1x, items, keys, update, _p x "
        "required subsets x additionalProperties absent/true/false/schema x dependentRequired x min/maxProperties; "
        "anyOf / oneOf / allOf of two subschemas) nested to depth 2 (quick) / 3 x ~75 JSON instances; state = one (schema, "
        "instance), transitions = build + convert + encode + validate. Non-trivial when the type returned a value")
ASSUMPTIONS = [
    "the independent judge is jsonschema.Draft202012Validator on the source schema (format is an annotation, as in the "
    "2020-12 default vocabulary)",
    "conversion runs under Options(no_explicit_cast=True, no_data_loss=True) as the statement says, through "
    "type_transform(instance, T, options=...)",
    "the returned value is encoded with utype's JSONEncoder and re-read with json.loads before validation",
]

NUM_KW = [{}, {"minimum": 0}, {"maximum": 10}, {"exclusiveMinimum": 0}, {"exclusiveMaximum": 3}, {"multipleOf": 2},
          {"minimum": 1, "maximum": 3}, {"enum": [1, 2, 3]}, {"const": 3}]
STR_KW = [{}, {"minLength": 1}, {"maxLength": 2}, {"pattern": "^[a-z]+$"}, {"pattern": "a"}, {"enum": ["a", "b"]},
          {"const": "a"}, {"format": "date"}, {"format": "date-time"}, {"format": "uuid"}, {"minLength": 1, "maxLength": 2}]
NOTYPE = [{}, {"const": 3}, {"const": "a"}, {"const": None}, {"const": True}, {"enum": [1, "a", None]}, {"enum": ["x"]},
          {"minimum": 0}, {"maxLength": 1}]
PROP_NAMES = ["a", "a-b", "class", "1x", "items", "keys", "update", "_p"]


def scalar_schemas():
    out = []
    for kw in NUM_KW:
        out.append({"type": "integer", **kw})
    for kw in NUM_KW[:7]:
        out.append({"type": "number", **kw})
    for kw in STR_KW:
        out.append({"type": "string", **kw})
    out += [{"type": "boolean"}, {"type": "null"}, {"type": "boolean", "const": True}]
    out += NOTYPE
    # keywords whose value is falsy are constraints like any other
    out += [{"const": False}, {"type": "boolean", "const": False}, {"const": 0}, {"type": "integer", "const": 0}, {"const": ""},
            {"type": "string", "const": ""}, {"enum": [0]}, {"enum": [False, ""]}, {"type": "integer", "maximum": 0},
            {"type": "number", "exclusiveMaximum": 0}, {"type": "string", "maxLength": 0}, {"maxLength": 0},
            {"type": "array", "maxItems": 0}, {"type": "array", "items": {"const": False}},
            {"type": "object", "properties": {"a": {"const": False}}, "required": ["a"]},
            {"anyOf": [{"const": False}, {"type": "string", "maxLength": 0}]},
            {"type": "object", "maxProperties": 0}, {"type": "object", "properties": {"a": {"type": "integer"}}, "maxProperties": 0}]
    return out


CORE = [{"type": "integer"}, {"type": "string"}, {"type": "integer", "minimum": 0}, {"type": "string", "maxLength": 2},
        {"type": "boolean"}, {"type": "number"}, {"enum": [1, "a", None]}, {"type": "null"}]


def array_schemas(elems):
    out = [{"type": "array"}]
    for e in elems:
        out.append({"type": "array", "items": e})
    for kw in ({"minItems": 1}, {"maxItems": 2}, {"uniqueItems": True}, {"minItems": 1, "maxItems": 2}):
        out.append({"type": "array", **kw})
        out.append({"type": "array", "items": {"type": "integer"}, **kw})
    for a, b in itertools.product(elems[:4], repeat=2):
        out.append({"type": "array", "prefixItems": [a, b]})
    out.append({"type": "array", "prefixItems": [{"type": "integer"}, {"type": "string"}], "items": False})
    out.append({"type": "array", "prefixItems": [{"type": "integer"}], "items": {"type": "string"}})
    out.append({"type": "array", "prefixItems": [{"type": "integer"}], "items": {"type": "integer", "minimum": 0}})
    # an unconstrained member ({} accepts everything) before constrained ones: positions must not shift
    out.append({"type": "array", "prefixItems": [{}, {"type": "integer", "minimum": 0}, {"type": "string"}], "items": False})
    out.append({"type": "array", "prefixItems": [{}, {"type": "integer", "minimum": 0}]})
    out.append({"type": "array", "prefixItems": [{"anyOf": [{}, {"type": "string"}]}, {"type": "string"}], "items": False})
    out.append({"prefixItems": [{"type": "string"}, {}, {"type": "integer"}]})
    # uniqueness of items that are arrays / objects themselves (not hashable once converted)
    out.append({"type": "array", "uniqueItems": True, "items": {"type": "array", "items": {"type": "integer"}}})
    out.append({"type": "array", "uniqueItems": True, "items": {"type": "object", "properties": {"a": {"type": "integer"}}}})
    out.append({"type": "array", "uniqueItems": True})
    out.append({"uniqueItems": True, "items": {"type": "object"}})
    return out


def object_schemas(values, tier):
    out = [{"type": "object"}, {"type": "object", "minProperties": 1}, {"type": "object", "maxProperties": 1},
           {"type": "object", "minProperties": 1, "maxProperties": 2}]
    names1 = PROP_NAMES
    for n in names1:
        for v in values[:3]:
            for req in ([], [n]):
                for add in ("absent", True, False, {"type": "integer"}):
                    s = {"type": "object", "properties": {n: v}}
                    if req:
                        s["required"] = req
                    if add != "absent":
                        s["additionalProperties"] = add
                    out.append(s)
    pairs = [("a", "b"), ("a", "a-b"), ("class", "items"), ("a", "_p"), ("keys", "update"), ("a_b", "a-b"),
             # names that collide only after they are turned into attribute names, in both orders
             ("a-b", "a_b"), ("a.b", "a b"), ("items", "items_1"), ("a-b", "a_b_1")]
    for n1, n2 in pairs:
        for v1, v2 in itertools.product(values[:3], repeat=2):
            for req in ([], [n1], [n1, n2]):
                s = {"type": "object", "properties": {n1: v1, n2: v2}}
                if req:
                    s["required"] = req
                out.append(s)
        out.append({"type": "object", "properties": {n1: values[0], n2: values[1]}, "dependentRequired": {n1: [n2]}})
        out.append({"type": "object", "properties": {n1: values[0], n2: values[1]}, "additionalProperties": False,
                    "maxProperties": 1})
        out.append({"type": "object", "properties": {n1: values[0], n2: values[1]}, "minProperties": 2,
                    "additionalProperties": True})
    # combinators with constrained members as property schemas (constraints must survive the field path)
    for kw in ("allOf", "anyOf", "oneOf"):
        out.append({"type": "object", "properties": {"a": {kw: [{"type": "integer", "minimum": 0}, {"maximum": 10}]}}})
        if kw != "allOf":       # (string and integer) is unsatisfiable
            out.append({"type": "object", "properties": {"a": {kw: [{"type": "string", "maxLength": 1}, {"type": "integer", "minimum": 3}]}},
                        "required": ["a"]})
        out.append({"type": "object", "properties": {"class": {"type": "object", "properties": {"a": {kw: [{"type": "integer", "minimum": 0},
                                                                                                        {"type": "null"}]}}}}})
    for n1, n2 in (("class", "items"), ("a-b", "a"), ("_p", "a"), ("1x", "keys")):
        out.append({"type": "object", "properties": {n1: {"type": "integer"}, n2: {"type": "integer"}}, "dependentRequired": {n1: [n2]}})
        out.append({"type": "object", "properties": {n1: {"type": "integer"}, n2: {"type": "integer"}}, "dependentRequired": {n2: [n1]}})
    out.append({"type": "object", "required": ["a"]})
    out.append({"properties": {"a": {"type": "integer"}}, "required": ["a"]})
    return out


def logical_schemas(subs):
    out = []
    for kw in ("anyOf", "oneOf", "allOf"):
        for a, b in itertools.permutations(subs, 2):
            out.append({kw: [a, b]})
    return out


def crosscut_schemas():
    """keywords that the translator handles in different places, side by side in one schema"""
    out = []
    # enum / const next to another constraint of the same schema: a listed value that the other keyword forbids
    out += [{"type": "integer", "enum": [1, 2, 30], "maximum": 10}, {"type": "integer", "const": 30, "maximum": 10},
            {"type": "string", "enum": ["a", "abc"], "maxLength": 2}, {"type": "string", "const": "abc", "pattern": "^a$"},
            {"enum": [1, 11], "maximum": 10}, {"type": "integer", "enum": [3, 4], "multipleOf": 2},
            {"type": "array", "items": {"type": "integer", "enum": [1, 11], "maximum": 10}},
            {"type": "object", "properties": {"a": {"type": "integer", "enum": [1, 11], "maximum": 10}}}]
    # ranges of a single value, and ranges without any value (valid schemas all the same)
    out += [{"type": "integer", "minimum": 5, "maximum": 5}, {"type": "number", "minimum": 1.5, "maximum": 1.5},
            {"type": "string", "minLength": 2, "maxLength": 2}, {"type": "array", "minItems": 1, "maxItems": 1},
            {"type": "integer", "exclusiveMinimum": 1, "exclusiveMaximum": 2}, {"type": "number", "minimum": 3, "maximum": 2},
            {"type": "string", "minLength": 1, "maxLength": 0}, {"type": "integer", "minimum": 5, "exclusiveMaximum": 5}]
    # const and enum together: both hold
    out += [{"const": 1, "enum": [2, 3]}, {"const": 2, "enum": [2, 3]}, {"type": "string", "const": "a", "enum": ["b"]},
            {"const": True, "enum": [1]}, {"type": "integer", "const": 3, "enum": [3, 4], "maximum": 3}]
    # length keywords of several sized types in one schema (only those of the declared type speak about its values)
    out += [{"type": "array", "maxItems": 1, "maxLength": 5}, {"type": "string", "minLength": 2, "minItems": 0},
            {"type": "array", "minItems": 2, "minProperties": 0, "items": {"type": "integer"}},
            {"type": "object", "maxProperties": 1, "maxItems": 3}, {"type": "string", "maxLength": 1, "maxProperties": 9}]
    # an explicit type next to a combinator
    for kw in ("anyOf", "oneOf", "allOf"):
        out.append({"type": "integer", kw: [{"minimum": 2}, {"maximum": 3}]})
        out.append({"type": "string", kw: [{"maxLength": 1}, {"pattern": "^a"}]})
        out.append({"type": "integer", kw: [{"type": "integer", "minimum": 2}, {"type": "integer", "maximum": 3}]})
        out.append({"type": "array", kw: [{"minItems": 2}, {"maxItems": 2}]})
        out.append({"type": "object", "properties": {"a": {"type": "integer"}}, kw: [{"required": ["a"]}, {"minProperties": 2}]})
        out.append({"type": "integer", "minimum": 0, kw: [{"type": "integer", "maximum": 3}, {"type": "integer", "multipleOf": 2}]})
        # the same member twice
        out.append({kw: [{"type": "integer"}, {"type": "integer"}]})
        out.append({kw: [{"type": "integer", "minimum": 0}, {"type": "integer", "minimum": 0}]})
        out.append({kw: [{"type": "string"}, {"type": "integer"}, {"type": "string"}]})
    # properties counted with and without the keys that are not declared
    for add in ("absent", True, {"type": "integer"}):
        for kw in ({"minProperties": 2}, {"maxProperties": 1}, {"minProperties": 2, "maxProperties": 2}):
            s = {"type": "object", "properties": {"a": {"type": "integer"}}, **kw}
            if add != "absent":
                s["additionalProperties"] = add
            out.append(s)
    out.append({"type": "object", "minProperties": 2, "additionalProperties": {"type": "integer"}})
    # dependentRequired over names that are not declared properties
    out += [{"type": "object", "properties": {"a": {"type": "integer"}}, "dependentRequired": {"a": ["zz"]}},
            {"type": "object", "properties": {"a": {"type": "integer"}}, "dependentRequired": {"zz": ["a"]}},
            {"type": "object", "dependentRequired": {"a": ["b"]}},
            {"type": "object", "properties": {"a": {"type": "integer"}}, "dependentRequired": {"a": ["zz"]}, "additionalProperties": True},
            {"type": "object", "properties": {"a": {"type": "integer"}}, "dependentRequired": {"a": ["zz"]}, "additionalProperties": False},
            {"dependentRequired": {"a": ["b"]}},
            {"type": "object", "properties": {"a": {"type": "integer"}}, "dependentRequired": {"a": ["zz"]},
             "additionalProperties": {"type": "integer", "minimum": 100}},
            {"type": "object", "properties": {"a": {"type": "integer"}}, "dependentRequired": {"zz": ["a"]},
             "additionalProperties": {"type": "string"}},
            {"type": "object", "properties": {"a": {"type": "integer"}, "b": {"type": "integer"}}, "dependentRequired": {"a": ["b", "zz"]}},
            {"type": "object", "properties": {"a": {"type": "integer"}, "b": {"type": "integer"}}, "dependentRequired": {"a": []}}]
    return out


def schemas(tier):
    sc = scalar_schemas()
    out = list(sc)
    out += crosscut_schemas()
    out += array_schemas(CORE)
    out += object_schemas(CORE, tier)
    out += logical_schemas(CORE[:6])
    # depth 2+: containers of containers / of logical schemas
    inner = [{"type": "array", "items": {"type": "integer"}}, {"type": "object", "properties": {"a": {"type": "integer"}},
                                                                "required": ["a"]},
             {"anyOf": [{"type": "integer"}, {"type": "null"}]}, {"type": "array", "prefixItems": [{"type": "integer"}]},
             {"oneOf": [{"type": "integer"}, {"type": "string", "maxLength": 1}]}]
    out += array_schemas(inner)[:12]
    for v in inner:
        out.append({"type": "object", "properties": {"a": v}, "required": ["a"]})
        out.append({"type": "object", "properties": {"items": v}, "additionalProperties": v})
    if tier == "thorough":
        inner2 = [{"type": "array", "items": i} for i in inner] + [{"type": "object", "properties": {"class": i}} for i in inner]
        out += array_schemas(inner2)[:20]
        for v in inner2:
            out.append({"type": "object", "properties": {"a": v, "a-b": {"type": "string"}}, "required": ["a"]})
        out += logical_schemas(inner)
        out += [{"type": "array", "items": s} for s in sc]
        out += [{"type": "object", "properties": {"a": s}} for s in sc]
        # every ordered pair of scalar schemas under each combinator, and as two properties of one object
        out += logical_schemas(sc)
        for a, b in itertools.combinations(sc, 2):
            out.append({"type": "object", "properties": {"a": a, "items": b}, "required": ["items"]})
    return out


INSTANCES = [None, True, False, 0, 1, -1, 2, 3, 4, 10, 11, 1.5, 2.0, -0.5, "", "a", "b", "ab", "abc", "A", "1", "3", "a1", "x",
             "2020-01-02", "2020-01-02T03:04:05Z", "12:00:00", "12345678-1234-5678-1234-567812345678", [], [1], [1, 2], [1, 1],
             [1, 2, 3], ["a"], [1, "a"], ["a", 1], [1, "a", 2], [1, "a", "b"], [None], [-1], [[1]], [[1, "a"]], [{"a": 1}], {},
             [5, "a"], [None, 5, "a"], [1, -1, "a"], ["a", None, 1], ["a", "b"], [{}, 0],
             [[1, 2], [3], [1, 2]], [[1], [2]], [[1], [1]], [{"a": 1}, {"a": 1}], [{"a": 1}, {"a": 2}], [[1, 2], 3, [1, 2]], [1, [1], 1],
             [{"a": 1}, 2, {"a": 1}],
             {"a": 1}, {"a": "x"}, {"a": -1}, {"a": None}, {"a": 1, "b": 2}, {"b": 2}, {"a-b": 1}, {"a": 1, "a-b": 2}, {"class": 1},
             {"class": 1, "items": 2}, {"items": 1}, {"items": [1]}, {"keys": 1, "update": 2}, {"1x": 1}, {"_p": 1}, {"a": 1, "_p": 2},
             {"a": 1, "zz": 2}, {"a": 1, "zz": "x"}, {"zz": 2}, {"a": [1]}, {"a": [1, "x"]}, {"a": {"a": 1}}, {"a": {"a": "x"}},
             {"a_b": 1, "a-b": 2}, {"a": 1, "b": 2, "c": 3}, {"a": "ab"}, {"a": "abc"}, {"a": True}, {"a": 1.5}, {"a": 11}, {"a": 5},
             {"class": {"a": -1}}, {"class": {"a": None}}, {"a-b": 1, "a": 2}, {"_p": 1, "a": 2}, {"1x": 1}, {"1x": 1, "keys": 2}, {"keys": 2},
             {"items": 2}, {"a-b": 1, "a_b": 2}, {"a_b": 2}, {"a.b": 1, "a b": 2}, {"a b": 2}, {"a.b": 1}, {"items": 1, "items_1": 2},
             {"items_1": 2}, {"a-b": 1, "a_b_1": 2}, {"a_b_1": 2}]


def bounds(tier):
    return dict(schemas=len(schemas(tier)), instances=len(INSTANCES), property_names=PROP_NAMES,
                nesting=3 if tier == "thorough" else 2)


CHUNK = 10


def shards(tier):
    n = len(schemas(tier))
    return [("schemas", i, min(i + CHUNK, n)) for i in range(0, n, CHUNK)]


_OPTS = None


def strict_opts():
    global _OPTS
    if _OPTS is None:
        _OPTS = _NS["Options"](no_explicit_cast=True, no_data_loss=True)
    return _OPTS


def keywords(schema, depth=0):
    ks = set()
    if isinstance(schema, dict):
        for k, v in schema.items():
            ks.add(k)
            if k in ("items", "additionalProperties") and isinstance(v, dict):
                ks |= keywords(v)
            elif k in ("prefixItems", "anyOf", "oneOf", "allOf"):
                for s in v:
                    ks |= keywords(s)
            elif k == "properties":
                for s in v.values():
                    ks |= keywords(s)
    return ks


def shape_of(schema):
    t = schema.get("type", "notype")
    ks = sorted(k for k in schema if k not in ("type",))
    names = ""
    if "properties" in schema:
        names = "[" + ",".join("ident" if n.isidentifier() and not hasattr(dict, n) and not n.startswith("_") and n != "class"
                               else n for n in schema["properties"]) + "]"
    return f"{t}{{{','.join(ks)}}}{names}"


COMBINATORS = ("anyOf", "oneOf", "allOf")


def _valid(schema, value):
    return jsonschema.Draft202012Validator(schema).is_valid(value)


_MEMBER_TYPES = {}


def _member_type_takes(member, inst):
    key = json.dumps(member, sort_keys=True)
    if key not in _MEMBER_TYPES:
        try:
            _MEMBER_TYPES[key] = JsonSchemaParser(member)()
        except Exception:       # noqa
            _MEMBER_TYPES[key] = None
    t = _MEMBER_TYPES[key]
    if t is None:
        return False
    st, r = call_guarded(lambda: _NS["type_transform"](json.loads(json.dumps(inst)), t, options=strict_opts()), wall_s=2.0)
    return st == "ok"


def _subclass(schema, inst, enc, kw):
    """semantic sub-classes of the recorded design-level findings (a fingerprint without one of these tags is never
    covered by them)"""
    if "type" in schema and any(k in schema for k in COMBINATORS):
        # a combinator beside an explicit type is not translated: the value is what the schema without the combinator allows
        if _valid({k: v for k, v in schema.items() if k not in COMBINATORS}, enc):
            return "@combinator-beside-type-ignored"
        return ""
    if kw == ["oneOf"] and "type" not in schema:
        members = schema["oneOf"]
        ok = [m for m in members if _valid(m, enc)]
        if isinstance(enc, list) and any("prefixItems" in m and len(m["prefixItems"]) != len(enc) for m in ok if isinstance(m, dict)):
            # a fixed-length tuple demands exactly its positions, so that member did not claim the shorter / longer array
            return "@prefixitems-other-length"
        if len(ok) > 1 and all(json.dumps(m, sort_keys=True) == json.dumps(ok[0], sort_keys=True) for m in ok):
            # equal members are merged into one
            return "@oneof-equal-members"
        if any(m == {} for m in members):
            # a member that allows everything absorbs the others (Any inside utype's ^ / | is just Any)
            return "@oneof-unconstrained-member"
        if len(ok) > 1 and sum(1 for m in members if _member_type_takes(m, inst)) <= 1:
            # exclusivity is decided by which member *types* convert the input; a member type may be stricter than its
            # schema (an untyped keyword such as {"minimum": 0} allows every non-number, format is an annotation), so
            # the value that comes back can satisfy two member schemas although only one member type took the input
            return "@oneof-member-type-stricter-than-its-schema"
        return ""
    if "minProperties" in kw and isinstance(inst, dict) and isinstance(enc, dict):
        gone = [k for k in inst if k not in enc]
        if gone and all(hasattr(_NS["Schema"], k) for k in gone) and len(enc) + len(gone) >= schema.get("minProperties", 0):
            # counted for minProperties, then dropped as the name of an attribute of the Schema base class
            return "@extra-key-named-like-base-attribute"
    return ""


def run_shard(shard, tier):
    _, lo, hi = shard
    acc = Acc()
    # history prefix: a parser with its own type_map was used earlier in the process (the override is that parser's alone)
    JsonSchemaParser({"type": "object", "properties": {"d": {"type": "string", "format": "date"}, "n": {"type": "integer"}}},
                     type_map={"date": str, "date-time": str, "integer": str, "boolean": str})()
    for schema in schemas(tier)[lo:hi]:
        sj = json.dumps(schema, sort_keys=True)
        acc.states += 1
        acc.transitions += 1

        def viol(kind, msg, inst=None):
            fp = f"C15|{shape_of(schema)}|{kind}"
            script = "\n".join([
                "import sys, json", "sys.path.insert(0, '/verif'); sys.path.append('/verif/.deps')", "from utmc.ns import *",
                "import jsonschema", "from utype.specs.json_schema.parser import JsonSchemaParser",
                "from utype.utils.encode import JSONEncoder",
                f"schema = json.loads({sj!r})", "T_ = JsonSchemaParser(schema)()", "print('built', T_)",
                f"x = json.loads({json.dumps(inst)!r})" if inst is not None or kind != "build" else "x = None",
                "try:", "    r = type_transform(x, T_, options=Options(no_explicit_cast=True, no_data_loss=True))",
                "except (TypeError, ValueError) as e:", "    print('rejected:', e); sys.exit(0)",
                "enc = json.loads(json.dumps(r, cls=JSONEncoder)); print('returned', repr(r), '->', enc)",
                "errs = list(jsonschema.Draft202012Validator(schema).iter_errors(enc))",
                "print([e.message for e in errs]); sys.exit(1 if errs else 0)"]) + "\n"
            acc.violation(fp, f"schema {sj}" + (f" instance {json.dumps(inst)}" if kind != "build" else "") + f": {msg}", script)
        try:
            jsonschema.Draft202012Validator.check_schema(schema)
        except Exception as e:
            raise RuntimeError(f"harness error: generated an invalid schema {sj}: {e}")
        st, t = call_guarded(lambda: JsonSchemaParser(schema)(), wall_s=2.0)
        if st != "ok":
            acc.outcomes["build-fails"] += 1
            tag = ""
            if type(t).__name__ == "ConfigError" and not any(_valid(schema, i) for i in INSTANCES + [5, 1.5, "ab", [1]]) and \
                    any(w in str(t) for w in ("must >", "must greater", "must <", "max_length", "min_length")):
                # sub-class of the recorded finding: no instance satisfies the schema, and Rule refuses such a range
                tag = "@unsatisfiable-range"
            viol("build-" + type(t).__name__ + tag, f"building a type raised {type(t).__name__}: {short(t, 100)}")
            continue
        validator = jsonschema.Draft202012Validator(schema)
        for inst in INSTANCES:
            acc.states += 1
            acc.transitions += 1
            x = json.loads(json.dumps(inst))
            st, r = call_guarded(lambda: _NS["type_transform"](x, t, options=strict_opts()), wall_s=2.0)
            acc.evaluations += 1
            if st == "exc" and isinstance(r, (TypeError, ValueError)):
                # ParseError is both; a plain class built from {"type": "string"} rejects with the bare TypeError / ValueError
                acc.outcomes["rejected"] += 1
                continue
            if st != "ok":
                acc.outcomes["raises"] += 1
                viol(f"convert-{type(r).__name__ if st == 'exc' else st}", f"conversion raised {short(r, 100)}", inst)
                continue
            try:
                enc = json.loads(json.dumps(r, cls=JSONEncoder))
            except Exception as e:
                acc.outcomes["unencodable"] += 1
                viol("result-not-encodable", f"returned {short(r, 60)}, which the JSON encoder cannot encode: {short(e, 60)}", inst)
                continue
            acc.transitions += 2
            acc.nontrivial_add((sj, json.dumps(inst)))
            errs = sorted(validator.iter_errors(enc), key=lambda e: e.message)
            if errs:
                acc.outcomes["forbidden-value"] += 1
                kw = sorted({e.validator for e in errs})
                tag = _subclass(schema, inst, enc, kw)
                if not tag and isinstance(schema.get("allOf"), list) and len(schema["allOf"]) > 1:
                    # sub-class of the recorded design-level finding: the conjunction converts in sequence, so what it
                    # returns satisfies its last member although an earlier member does not accept that value
                    ok = [jsonschema.Draft202012Validator(m).is_valid(enc) for m in schema["allOf"]]
                    if ok[-1] and not all(ok[:-1]):
                        tag = "@allof-last-member-wins"
                viol("emits-forbidden-" + ",".join(kw) + tag, f"returned {short(r, 60)} (JSON {json.dumps(enc)[:60]}) which the schema "
                                                         f"forbids: {errs[0].message[:100]}", inst)
            else:
                acc.outcomes["valid-value"] += 1
            if acc.evaluations % 211 == 0:
                acc.sample(dict(schema=schema, instance=inst, returned=short(r, 60)))
    return acc
