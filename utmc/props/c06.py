"""C06 — the result does not depend on the field-lookup strategy.

E1, differential: every (declaration, options, input) of the C05 universe — data classes of both bases and the
same field menu declared as keyword parameters of a decorated function — is parsed with data_first_search=True and
=False, each fail-fast and collecting.  Both accept => equal mapping / attribute views (or equal bound arguments);
otherwise both reject, the sets of (error kind, item) collected are equal and each fail-fast error belongs to it.
"""
from ..core import Acc, bootstrap

bootstrap()
from .. import dcmodel as M          # noqa: E402
from ..universe import _NS           # noqa: E402
from ..canon import short, canon     # noqa: E402
from . import c05                    # noqa: E402

from utype.utils import exceptions as uexc   # noqa: E402

ID = "C06"
LEVEL = "model_checking"
RULE = ("C05's product space (Field menu x class options x input assignments, data classes of both bases, plus the "
        "same fields as keyword parameters of a decorated function), each configuration executed four times: "
        "data-first / field-first x fail-fast / collecting; state = one configuration, transition = one parse. "
        "A case is non-trivial when at least one run rejected or an alias / default / extra key was involved")
ASSUMPTIONS = [
    "no reference model: the two strategies are compared with each other (differential oracle)",
    "fail-fast runs may legitimately meet errors in a different order, so the fail-fast error only has to belong "
    "to the set of errors of the collecting runs; kinds and items are compared, not messages",
    "when ignore_alias_conflicts is set the winning spelling is documented nowhere; the accepted values are then only "
    "required to come from the input spellings",
]


def _c05_decls(tier):
    """C05's declarations; in the thorough tier every run is made four times here, so the second field of a pair is
    taken from the first 8 menu entries only"""
    quick8 = {m.tag for m in M.MENU[:M.QUICK_MENU]}
    for base, tags in c05.decls(tier):
        if tier == "thorough" and len(tags) > 1 and tags[1] not in quick8:
            continue
        yield base, tags


def decls(tier):
    out = []
    for base, tags in _c05_decls(tier):
        if base == "DataClass" and len(tags) > 1:
            continue      # the lookup loops do not depend on the base class: 1-field DataClasses only
        out.append((base, tags))
    for tag in ("alias", "alias-from", "alias-both", "ci-alias", "alias-no-output", "ci"):
        out.append(("Schema-sub", (tag,)))
        out.append(("Schema-sub", (tag, "alias-from")))
    # a subclass that only turns case_insensitive on and inherits a mixed-case field (userName) of a case-sensitive base
    for tag in ("req", "optional", "alias", "alias-from", "default"):
        out.append(("Schema-subci", (tag,)))
    # function declarations: the same menu as keyword parameters (fields that make no sense for functions are
    # rejected at declaration time by utype and counted)
    seen = set()
    for base, tags in _c05_decls(tier):
        if base != "Schema" or tags in seen:
            continue
        seen.add(tags)
        if tier != "thorough" and len(tags) > 1 and len(seen) % 2:
            continue
        out.append(("func", tags))
        # positional binding (parameters bound by position are excluded from the keyword lookup)
        if any(M.MENU_BY_TAG[t].deps for t in tags) or len(seen) % (2 if tier == "thorough" else 5) == 0:
            out.append(("funcpos", tags))
    return out


def bounds(tier):
    return dict(declarations=len(decls(tier)), field_menu=len(M.MENU), option_sets=len(M.OPTION_SETS),
                runs_per_configuration=4)


CHUNK = 1


def shards(tier):
    n = len(decls(tier))
    return [("decl", i, min(i + CHUNK, n)) for i in range(0, n, CHUNK)]


def func_source(fields, opt_expr, positional=False):
    params = []
    for f in fields:
        fd = f.fd
        if fd.expr:
            params.append(f"{f.name}: int = " + fd.expr.format(n=f.name, o=f.other))
        elif fd.plain_default is not None:
            params.append(f"{f.name}: int = {fd.plain_default}")
        else:
            params.append(f"{f.name}: int")
    # required parameters first (Python syntax): plain required ones have no default expression; then the ones that are
    # required through their Field (utype refuses a required parameter after an optional one in the positional form)
    req = [p for p in params if "=" not in p]
    req_f = [p for p, f in zip(params, fields) if "=" in p and f.fd.required is True]
    opt = [p for p, f in zip(params, fields) if "=" in p and f.fd.required is not True]
    order = req + req_f + opt
    star = "" if positional else "*, "
    return ("def make(opts):\n"
            f"    @utype.parse(options=opts)\n"
            f"    def S({star}{', '.join(order)}, **kw):\n"
            f"        return dict(locals())\n"
            f"    return S\n"
            f"make.order = {[p.split(':')[0] for p in order]!r}\n")


def build(base, fields, cexpr):
    env = dict(_NS)
    env["__name__"] = "utmc.ns"
    if base in ("func", "funcpos"):
        src = func_source(fields, cexpr, positional=(base == "funcpos"))
        exec(src, env)
        return env["make"], src
    if base == "Schema-sub":
        # inheritance: the subclass under test re-declares the first field plainly (without its aliases) and inherits
        # the others; the inputs still use every spelling of the base declaration
        src = M.class_source("Schema", fields, "", name="B0") + f"class S(B0):\n" + \
            (f"    __options__ = Options({cexpr})\n" if cexpr else "") + f"    {fields[0].name}: int = 9\n"
        exec(src, env)
        return env["S"], src
    if base == "Schema-subci":
        o = ", ".join(p for p in ("case_insensitive=True", cexpr) if p)
        src = M.class_source("Schema", fields, "", name="B0") + f"class S(B0):\n    __options__ = Options({o})\n    extra: int = 0\n"
        exec(src, env)
        return env["S"], src
    src = M.class_source(base, fields, cexpr)
    exec(src, env)
    return env["S"], src


_OPTS = {}
_DATA = {}


def run_once(base, obj, cexpr, rexpr, dfs, collect, data_expr):
    parts = [p for p in ((rexpr if rexpr is not None else cexpr), f"data_first_search={dfs}",
                         "collect_errors=True" if collect else "") if p]
    okey = ", ".join(parts)
    o = _OPTS.get(okey)
    if o is None:
        o = _OPTS[okey] = eval("Options(" + okey + ")", _NS)
    data = dict(_DATA.get(data_expr) or _DATA.setdefault(data_expr, eval(data_expr, _NS)))   # flat dict of ints / strs
    if len(_DATA) > 20000:
        _DATA.clear()
    try:
        if base == "func":
            r = obj(o)(**data)
            return ("ok", r)
        if base == "funcpos":
            # the first declared parameter is passed by position when the input names it by its own name
            args = (data.pop(obj.order[0]),) if obj.order[0] in data else ()
            r = obj(o)(*args, **data)
            return ("ok", r)
        return ("ok", obj.__from__(data, options=o))
    except uexc.ParseError as e:
        return ("err", c05.errors_of(e))
    except Exception as e:
        return ("other", e)


def view(base, fields, st, payload):
    if st != "ok":
        return None
    if base in ("func", "funcpos"):
        return canon(payload)
    keys, attrs = c05.observe(None, payload, fields)
    return canon((keys, {k: v for k, v in attrs.items()}))


def run_shard(shard, tier):
    _, lo, hi = shard
    acc = Acc()
    for base, tags in decls(tier)[lo:hi]:
        fields = c05.bind_fields(tags)
        if base == "Schema-subci":
            fields = [M.MENU_BY_TAG[t].bind("userName" if i == 0 else "b", None) for i, t in enumerate(tags)]
        for ci, ri in c05.optsets(tier, len(tags)):
            cexpr, copts = M.OPTION_SETS[ci]
            if "data_first_search" in copts:
                continue      # the strategy is this check's own variable
            if base == "Schema-subci" and ("case_insensitive" in copts or ri is not None):
                continue
            if base.startswith("func") and any(k in copts for k in ("no_default", "defer_default")):
                continue      # documented as data-class only
            rexpr = None if ri is None else M.OPTION_SETS[ri][0]
            if ri is not None and isinstance(copts.get("addition"), type):
                continue
            try:
                obj, src = build(base, fields, cexpr)
                if base.startswith("func"):
                    obj(eval("Options(" + cexpr + ")", _NS))
            except Exception as e:
                acc.extra["declarations_rejected_at_build"] += 1
                if len(acc.notes) < 10:
                    acc.notes.append(f"declaration rejected: {base} {tags} Options({cexpr}): {type(e).__name__}: {short(e, 80)}")
                continue
            ci_flag = bool(copts.get("case_insensitive"))
            for items in M.inputs_for(fields, ci_flag, tier, gen="alias_from_generator" in copts):
                one_case(acc, base, tags, fields, obj, src, cexpr, rexpr, items)
        try:
            from utype.parser import base as _pb
            _pb.__parsers__.clear()
        except Exception:
            pass
    return acc


def one_case(acc, base, tags, fields, obj, src, cexpr, rexpr, items):
    data_expr = M.input_expr(items)
    acc.states += 1
    runs = {}
    for dfs in (True, False):
        for collect in (False, True):
            runs[(dfs, collect)] = run_once(base, obj, cexpr, rexpr, dfs, collect, data_expr)
            acc.transitions += 1
    acc.evaluations += 1
    shape = "+".join(tags)
    optk = (cexpr or "-") + "|" + (rexpr or "-")

    dup = ""
    if base == "funcpos" and obj.order[0] in dict(items):
        first = obj.order[0]
        if any(k != first and c05_owner(k, fields, cexpr) == first for k, _ in items):
            dup = "@keyword-duplicate-of-positional"

    def viol(kind, msg):
        fp = f"C06|{base}|{shape}|{optk}|{kind}{dup}"
        acc.violation(fp, f"{base} [{', '.join(tags)}] Options({cexpr}) runtime={rexpr} input={data_expr}: {msg}",
                      _script(base, src, cexpr, rexpr, tags, items),
                      dict(source=src, runtime=rexpr, input=data_expr))

    for key, (st, p) in list(runs.items()):
        acc.outcomes[st] += 1
        if st == "other":
            # escapes are C04's subject; here only agreement between the strategies is judged
            runs[key] = ("other:" + type(p).__name__, str(p)[:60])
    ci_flag = "case_insensitive=True" in cexpr

    def owners(errs):
        out = set()
        for kind, item in errs:
            f = M._field_key_owner(item, fields, {"case_insensitive": ci_flag}) if isinstance(item, str) else None
            out.add((kind, f.name if f else item))
        return out

    def mask(a, b):
        """both strategies report an alias conflict on a field: that is the failure; what else is said about the
        field (and the dependency check that hangs on it) follows from which spelling each loop met first"""
        both = {o for k, o in a if k == "AliasConflictError"} & {o for k, o in b if k == "AliasConflictError"}
        if not both:
            return a, b

        def m(x):
            return {(k, o) for k, o in x if not (o in both and k != "AliasConflictError") and k != "DependenciesAbsenceError"}
        return m(a), m(b)

    ignore_conf = "ignore_alias_conflicts" in (rexpr if rexpr is not None else cexpr)
    multi_spelling = len({k for k, _ in items}) != len({(c05_owner(k, fields, cexpr)) for k, _ in items})
    trivial = True
    for collect in (False, True):
        a_st, a_p = runs[(True, collect)]
        b_st, b_p = runs[(False, collect)]
        if ignore_conf and multi_spelling:
            acc.extra["winner_undocumented_under_ignore_alias_conflicts"] += 1
            trivial = False
            # which spelling wins is not documented -- but the *key sets* are: when both strategies accept, the same field
            # names and the same extra keys are present (a second spelling of a field is never an extra key)
            if a_st == "ok" and b_st == "ok" and base not in ("func", "funcpos"):
                ka = sorted(map(str, c05.observe(None, a_p, fields)[0]))
                kb = sorted(map(str, c05.observe(None, b_p, fields)[0]))
                if ka != kb:
                    viol("keys", f"both accept but the key sets differ: data-first {ka} field-first {kb}")
                    return
            continue
        if a_st != b_st:
            trivial = False
            rej = a_p if a_st == "err" else b_p if b_st == "err" else set()
            viol(f"verdict-{'collect' if collect else 'failfast'}-{c05._kinds(rej) if rej else a_st + '/' + b_st}",
                 f"data-first gives {a_st} but field-first gives {b_st} ({'collecting' if collect else 'fail-fast'}; "
                 f"{short(a_p, 80)} / {short(b_p, 80)})")
            return
        if a_st.startswith("other"):
            acc.extra["both_strategies_raise_the_same_non_parse_error"] += 1
            trivial = False
            continue
        if a_st == "ok":
            va, vb = view(base, fields, a_st, a_p), view(base, fields, b_st, b_p)
            if va != vb:
                trivial = False
                viol("value", f"both accept but the results differ: data-first {short(a_p, 70)} / {va!r:.150} "
                              f"field-first {short(b_p, 70)} / {vb!r:.150}")
                return
        else:
            trivial = False
            if collect:
                ma, mb = mask(owners(a_p), owners(b_p))
                if ma != mb:
                    viol(f"errors-{c05._kinds(ma ^ mb)}", f"collected error sets differ: data-first {sorted(a_p, key=repr)} "
                                                          f"field-first {sorted(b_p, key=repr)}")
                    return
    # fail-fast errors belong to the collected sets
    for dfs in (True, False):
        st, p = runs[(dfs, False)]
        cst, cp = runs[(dfs, True)]
        if st == "err" and cst == "err" and not ({o for _, o in owners(p)} <= {o for _, o in owners(cp)}):
            viol(f"failfast-not-in-collected-{c05._kinds(p)}",
                 f"data_first={dfs}: fail-fast error {sorted(p, key=repr)} names no item of the collected {sorted(cp, key=repr)}")
            return
    if not trivial or len(items) > len(fields):
        acc.nontrivial_add((base, tags, optk, data_expr))
    if acc.states % 2503 == 0:
        acc.sample(dict(decl=f"{base}[{','.join(tags)}] Options({cexpr})", runtime=rexpr, input=data_expr,
                        data_first=runs[(True, True)][0], field_first=runs[(False, True)][0]))


def c05_owner(key, fields, cexpr):
    f = M._field_key_owner(key, fields, {"case_insensitive": "case_insensitive=True" in cexpr,
                                         "alias_from_generator": "alias_from_generator" in cexpr})
    return f.name if f else ("?", key)


def _script(base, src, cexpr, rexpr, tags, items):
    return "\n".join([
        "import sys", "sys.path.insert(0, '/verif')", "from utmc.ns import *",
        "from utmc.props import c05, c06",
        f"tags = {tags!r}; items = {items!r}",
        "fields = c05.bind_fields(tags)" if base != "Schema-subci" else
        "fields = [c06.M.MENU_BY_TAG[t].bind('userName' if i == 0 else 'b', None) for i, t in enumerate(tags)]",
        f"obj, src = c06.build({base!r}, fields, {cexpr!r})",
        "print(src)",
        "acc = c06.Acc()",
        f"c06.one_case(acc, {base!r}, tags, fields, obj, src, {cexpr!r}, {rexpr!r}, items)",
        "for fp, vs in acc.violations.items():", "    print(fp); print('  ', vs[0].summary)",
        "sys.exit(1 if acc.violations else 0)"]) + "\n"
