"""C18 — the depth limit is exact and parse cost stays bounded.

(a) E1: recursive data-class declarations (every way of reaching the nested class) x max_depth x inputs of every
    data-class nesting depth with the nested value at several list indexes / mapping keys / union branches, plus cyclic
    inputs; oracle: a reference walk computing the nesting depth.
(b) E1 with a counting leaf: the harness registers a converter for its own Leaf class that increments a counter (a
    deterministic work measure, no timing); the count is compared with a polynomial bound in the number of input nodes.
"""
import itertools
import sys
import types

from ..core import Acc, bootstrap, call_guarded

bootstrap()
from ..universe import _NS        # noqa: E402
from ..canon import short         # noqa: E402

from utype.utils import exceptions as uexc   # noqa: E402

ID = "C18"
LEVEL = "model_checking"
RULE = ("(a) 17 recursive declarations + 4 of them x 10 further options beside the limit (ignore_constraints, no_explicit_cast, no_data_loss, addition, ignore_required, data_first_search, case_insensitive, no_default, invalid_items=exclude, invalid_values=exclude); depth verdicts compared over four entry points (class, type_transform, function parameter, list element); DAG inputs (two of them collecting errors, an outer class whose override=True options carry the limit for a nested class without / with a larger one, Optional['N'], 'N' = None, List['N'], Tuple['N', ...], Dict[str, 'N'], Union[int, 'N'], "
        "any_of('N', None), mutual recursion through a second class, List[Optional['N']], @utype.dataclass, DataClass base, a declared "
        "__init__ on a decorated class and on a Schema) x max_depth in {None, 1, 2, 3, 4} x inputs of "
        "data-class depth 1..6 with the nested value at list index 0 / 1 / 2, mapping key 'k' / '' / '0', either union branch, plain or "
        "wrapped in a one-element list / tuple at every level, plus self-containing dicts and lists (plain and wrapped); (b) 9 declarations "
        "with a counting leaf x 4 strictness option sets x depth 1..12 (chains) / 1..8 (trees) x width 1..3 x {valid, lenient-only, one "
        "invalid leaf at the bottom} and a self-containing input cut by max_depth 2..12; state = one (declaration, options, limit, "
        "input); non-trivial when the input is nested at least twice")
ASSUMPTIONS = [
    "data-class nesting depth of an input = the number of data-class instances on the longest root-to-leaf path (the root "
    "counts 1), as in the documentation example 'max_depth: 3 exceed: 4'",
    "max_depth is set through the class options of every class of the declaration (as documented); without a limit a cyclic "
    "input ends in Python's RecursionError by documented design and is not judged",
    "the cost bound is W <= 4 * n^2 + 8 leaf conversions for an input of n nodes; counts are exact (no timing)",
]

DECLS = {
    # name: (source template with {opt}, root class, child builder name)
    "optional": ("class N(Schema):\n{opt}    v: int = 0\n    nxt: Optional['N'] = None\n", "N", "nxt"),
    "plain-default": ("class N(Schema):\n{opt}    v: int = 0\n    nxt: 'N' = None\n", "N", "nxt"),
    "list": ("class N(Schema):\n{opt}    v: int = 0\n    kids: List['N'] = Field(default_factory=list)\n", "N", "kids[]"),
    "tuple": ("class N(Schema):\n{opt}    v: int = 0\n    kids: Tuple['N', ...] = ()\n", "N", "kids[]"),
    "dict": ("class N(Schema):\n{opt}    v: int = 0\n    kids: Dict[str, 'N'] = Field(default_factory=dict)\n", "N", "kids{}"),
    "union": ("class N(Schema):\n{opt}    v: int = 0\n    nxt: Union[int, 'N'] = 0\n", "N", "nxt"),
    "logical": ("class N(Schema):\n{opt}    v: int = 0\n    nxt: any_of('N', None) = None\n", "N", "nxt"),
    "mutual": ("class N(Schema):\n{opt}    v: int = 0\n    m: Optional['M'] = None\n"
               "class M(Schema):\n{opt}    w: int = 0\n    n: Optional[N] = None\n", "N", "m/n"),
    # other ways of declaring a data class
    "decorator": ("@utype.dataclass\nclass N:\n{opt}    v: int = 0\n    nxt: Optional['N'] = None\n", "N", "nxt"),
    "dataclass-base": ("class N(DataClass):\n{opt}    v: int = 0\n    kids: List['N'] = Field(default_factory=list)\n", "N", "kids[]"),
    # a declared __init__ is the input parser of the class: its parameters are parsed at the nesting level of the instance
    "custom-init": ("@utype.dataclass\nclass N:\n{opt}    v: int = 0\n    nxt: Optional['N'] = None\n"
                    "    def __init__(self, v: int = 0, nxt: Optional['N'] = None):\n        self.v = v\n        self.nxt = nxt\n", "N", "nxt"),
    "custom-init-schema": ("class N(Schema):\n{opt}    v: int = 0\n    kids: List['N'] = Field(default_factory=list)\n"
                           "    def __init__(self, v: int = 0, kids: List['N'] = ()):\n        super().__init__(v=v, kids=kids)\n", "N", "kids[]"),
    # the options of an outer class that overrides (override=True) are the ones in force for every nested class
    "override-outer": ("class N(Schema):\n    v: int = 0\n    nxt: Optional['N'] = None\n"
                       "class Outer(Schema):\n{opt_override}    v: int = 0\n    nxt: Optional[N] = None\n", "Outer", "nxt"),
    "override-outer-list": ("class N(Schema):\n    __options__ = Options(max_depth=50)\n    v: int = 0\n    kids: List['N'] = Field(default_factory=list)\n"
                            "class Outer(Schema):\n{opt_override}    v: int = 0\n    kids: List[N] = Field(default_factory=list)\n", "Outer", "kids[]"),
    # the limit holds when errors are collected, too (exceeding it ends the parse of that branch at once)
    "optional-collect": ("class N(Schema):\n{opt_collect}    v: int = 0\n    nxt: Optional['N'] = None\n", "N", "nxt"),
    "list-collect": ("class N(Schema):\n{opt_collect}    v: int = 0\n    kids: List['N'] = Field(default_factory=list)\n", "N", "kids[]"),
    "list-optional": ("class N(Schema):\n{opt}    v: int = 0\n    kids: List[Optional['N']] = Field(default_factory=list)\n", "N", "kids[]"),
}
# the limit next to one other option of the same declaration: no option switches the limit off or moves it
EXTRA_OPTS = {
    "ignore-constraints": "ignore_constraints=True", "no-explicit-cast": "no_explicit_cast=True", "no-data-loss": "no_data_loss=True",
    "addition": "addition=True", "ignore-required": "ignore_required=True", "data-first": "data_first_search=True",
    "case-insensitive": "case_insensitive=True", "no-default": "no_default=True",
    # the policies that drop what does not convert: exceeding the limit is not an element / a field that fails to convert
    "exclude-items": "invalid_items='exclude'", "exclude-values": "invalid_values='exclude'",
}
for _base in ("optional", "list", "dict", "union"):
    for _ename, _extra in EXTRA_OPTS.items():
        DECLS[f"{_base}+{_ename}"] = DECLS[_base] + (_extra,)
LIMITS = [None, 1, 2, 3, 4]
_SEQ = [0]


def load(src):
    # typing caches generic aliases such as Optional['N'] together with their ForwardRef objects: without this reset
    # a class N of a later module would share (and find already evaluated) the reference of an earlier module's N
    import typing
    for f in typing._cleanups:
        f()
    _SEQ[0] += 1
    mod = types.ModuleType(f"utmc_c18_{_SEQ[0]}")
    mod.__dict__.update(_NS)
    mod.__dict__["__name__"] = mod.__name__
    sys.modules[mod.__name__] = mod
    exec(src, mod.__dict__)
    return mod


def parse(cls, data):
    """the conversion under test: Schema.__from__ where it exists, else the keyword form of the data class"""
    f = getattr(cls, "__from__", None)
    return f(data) if f else cls(**data)


def _param_entry(mod, cls, data):
    f = mod.__dict__.get("_ENTRY_F")
    if f is None or f.__annotations__.get("t") is not cls:
        def f(t):
            return t
        f.__annotations__["t"] = cls
        f = mod.__dict__["_ENTRY_F"] = _NS["utype"].parse(f)
    return f(data)


ENTRIES = {
    "type_transform": lambda mod, cls, data: _NS["type_transform"](data, cls),
    "function-parameter": _param_entry,
    "list-element": lambda mod, cls, data: _NS["T"](_NS["List"][cls])([data]),
}


def unload(mod):
    sys.modules.pop(mod.__name__, None)
    try:
        from utype.parser import base as _pb
        _pb.__parsers__.clear()
    except Exception:
        pass


def _wrap(child, wrap):
    """the nested data-class value in the one-element sequence shape of query strings / multipart forms"""
    return [child] if wrap == "list" else (child,) if wrap == "tuple" else child


def build_input(how, depth, index=0, key="k", level=0, wrap=None):
    """nested mapping of data-class depth `depth`"""
    node = {"v": level}
    if depth <= 1:
        return node
    if how == "nxt":
        node["nxt"] = _wrap(build_input(how, depth - 1, index, key, level + 1, wrap), wrap)
    elif how == "kids[]":
        child = _wrap(build_input(how, depth - 1, index, key, level + 1, wrap), wrap)
        pad = [{"v": 100 + i} for i in range(index)]
        node["kids"] = pad + [child]
    elif how == "kids{}":
        child = _wrap(build_input(how, depth - 1, index, key, level + 1, wrap), wrap)
        node["kids"] = {key: child}
        if index:
            node["kids"]["pad"] = {"v": 100}
    elif how == "m/n":
        # N -> M -> N: every data class counts
        node = {"v": level} if level % 2 == 0 else {"w": level}
        node["m" if level % 2 == 0 else "n"] = _wrap(build_input(how, depth - 1, index, key, level + 1, wrap), wrap)
    return node


def _unwrap(x):
    if isinstance(x, (list, tuple)) and len(x) == 1:
        return x[0]
    return x


def ref_depth(x, seen=None):
    """reference walk: data-class nesting depth of a nested mapping (None when cyclic)"""
    seen = seen or ()
    if id(x) in seen:
        return None
    if isinstance(x, dict) and ("v" in x or "w" in x or not x):
        best = 1
        for k, val in x.items():
            if k in ("nxt", "m", "n") and isinstance(_unwrap(val), dict):
                d = ref_depth(_unwrap(val), seen + (id(x),))
                if d is None:
                    return None
                best = max(best, 1 + d)
            elif k == "kids":
                children = list(val.values()) if isinstance(val, dict) else list(val)
                for c in children:
                    c = _unwrap(c)
                    if isinstance(c, dict):
                        d = ref_depth(c, seen + (id(x),))
                        if d is None:
                            return None
                        best = max(best, 1 + d)
        return best
    return 0


def _limits(tier):
    return LIMITS if tier != "thorough" else [None, 1, 2, 3, 4, 5, 6, 7]


def _max_input_depth(tier):
    return 6 if tier != "thorough" else 10


def bounds(tier):
    return dict(declarations=list(DECLS), limits=_limits(tier), max_input_depth=_max_input_depth(tier),
                cost_declarations=list(COST_DECLS), cost_option_sets=list(COST_OPTS),
                cost_chain_depth=12 if tier != "thorough" else 20, cost_tree_depth=8 if tier != "thorough" else 10,
                cost_widths=3 if tier != "thorough" else 4, cyclic_limits="2..12" if tier != "thorough" else "2..20")


def shards(tier):
    return [("depth", d) for d in DECLS] + [("cost", c, o) for c in COST_DECLS for o in COST_OPTS]


def run_shard(shard, tier):
    acc = Acc()
    if shard[0] == "depth":
        _depth(acc, shard[1], tier)
    else:
        _cost(acc, shard[1], shard[2], tier)
    return acc


def _depth(acc, dname, tier):
    tmpl, root, how, *rest = DECLS[dname]
    extra = rest[0] if rest else ""
    maxd = _max_input_depth(tier)
    for limit in _limits(tier):
        opt = f"    __options__ = Options(max_depth={limit})\n" if limit else ""
        if extra:
            opt = f"    __options__ = Options({f'max_depth={limit}, ' if limit else ''}{extra})\n"
        opt_override = f"    __options__ = Options(max_depth={limit}, override=True)\n" if limit else ""
        opt_collect = (f"    __options__ = Options(max_depth={limit}, collect_errors=True)\n" if limit else
                       "    __options__ = Options(collect_errors=True)\n")
        src = tmpl.format(opt=opt, opt_override=opt_override, opt_collect=opt_collect)
        mod = load(src)
        cls = mod.__dict__[root]
        cases = []
        positions = [(0, "k")]
        if how == "kids[]":
            positions = [(0, "k"), (1, "k"), (2, "k")]
        elif how == "kids{}":
            positions = [(0, "k"), (0, ""), (0, "0"), (1, "k")]
        for depth in range(1, maxd + 1):
            for index, key in positions:
                cases.append((f"depth={depth},index={index},key={key!r}", build_input(how, depth, index, key)))
        # the nested value wrapped in a one-element list / tuple at every level (the documented query-string shape):
        # the wrapper is not a data class and must not change the count
        for wrap in ("list", "tuple"):
            if "no_explicit_cast" in extra:
                break       # taking the single element of a sequence for the data class is such a cast: rejected at any depth
            for depth in range(2, maxd + 1):
                cases.append((f"depth={depth},index=0,key='k',wrap={wrap!r}", build_input(how, depth, 0, "k", wrap=wrap)))
        # the very same object twice (a DAG, not a cycle): where it fits, and one level deeper where it does not
        if how in ("kids[]", "kids{}"):
            for depth in range(1, maxd - 1):
                shared = build_input(how, depth)
                if how == "kids[]":
                    dag = {"v": 0, "kids": [shared, {"v": 9, "kids": [shared]}]}
                else:
                    dag = {"v": 0, "kids": {"k": shared, "j": {"v": 9, "kids": {"k": shared}}}}
                cases.append((f"dag-shared-depth={depth}", dag))
        # the other union branch / a scalar at the nested position
        if how == "nxt" and dname != "plain-default":
            cases.append(("scalar-branch", {"v": 0, "nxt": None} if dname.split("+")[0] != "union" else {"v": 0, "nxt": 5}))
        # cyclic inputs
        cyc = {"v": 0}
        if how == "nxt":
            cyc["nxt"] = cyc
        elif how == "kids[]":
            cyc["kids"] = [cyc]
        elif how == "kids{}":
            cyc["kids"] = {"k": cyc}
        else:
            inner = {"w": 1, "n": cyc}
            cyc["m"] = inner
        cases.append(("cyclic", cyc))
        wcyc = {"v": 0}
        if how == "nxt":
            wcyc["nxt"] = [wcyc]
        elif how == "kids[]":
            wcyc["kids"] = [[wcyc]]
        elif how == "kids{}":
            wcyc["kids"] = {"k": [wcyc]}
        else:
            wcyc["m"] = [{"w": 1, "n": [wcyc]}]
        cases.append(("cyclic-wrapped", wcyc))
        if how == "kids[]":
            lst = []
            lst.append({"v": 1, "kids": lst})
            cases.append(("cyclic-list", {"v": 0, "kids": lst}))
        for label, data in cases:
            if limit is None and label.startswith("cyclic"):
                # documented: without max_depth a cyclic input ends in Python's recursion error (through the staged
                # retries of a union only after an astronomic number of steps) -- not judged, not run
                acc.extra["cyclic_without_limit_not_judged"] += 1
                continue
            acc.states += 1
            acc.transitions += 1
            want = ref_depth(data)
            # a rejection deep down a chain of unions costs 3^depth attempts (the recorded C18 cost finding): the step
            # budget of the termination guard is sized so that limit 7 still finishes
            st, r = call_guarded(lambda: parse(cls, data), wall_s=3.0 if tier != "thorough" else 20.0,
                                 step_budget=1_500_000 if tier != "thorough" else 40_000_000)
            acc.evaluations += 1
            got = "ok" if st == "ok" else ("perr" if isinstance(r, uexc.ParseError) else
                                           "recursion" if isinstance(r, RecursionError) else f"other:{type(r).__name__ if st == 'exc' else st}")
            acc.outcomes[got] += 1
            if want is None or (want or 0) > 1:
                acc.nontrivial_add((dname, limit, label))

            def viol(kind, msg):
                fp = f"C18|depth|{dname}|limit={limit}|{kind}"
                script = "\n".join([
                    "import sys", "sys.path.insert(0, '/verif')", "from utmc.props import c18",
                    f"mod = c18.load({src!r})", f"cls = mod.__dict__[{root!r}]",
                    (f"data = c18.build_input({how!r}, {label.split(',')[0].split('=')[1]}, "
                     f"{label.split(',')[1].split('=')[1]}, {label.split('key=')[1].replace('wrap=', 'wrap=')})") if label.startswith("depth=") else
                    f"data = None  # {label}: see the summary for the construction",
                    "print(mod.__name__, data)",
                    "try:", "    print(c18.parse(cls, data)); got = 'ok'", "except Exception as e:",
                    "    print(type(e).__name__, str(e)[:200]); got = 'rejected'",
                    f"print('reference depth', c18.ref_depth(data), 'limit', {limit!r})",
                    f"sys.exit(0 if (got == 'ok') == (c18.ref_depth(data) is not None and ({limit!r} is None or c18.ref_depth(data) <= {limit!r})) else 1)"]) + "\n"
                acc.violation(fp, f"declaration '{dname}' max_depth={limit} input {label}: {msg}", script)
            # sub-class of the recorded finding: under an exclude policy the part beyond the limit is dropped like a value
            # that does not convert -- what comes back is cut at the limit (anything deeper would be another matter)
            cut = ""
            if got == "ok" and limit and "exclude" in extra:
                try:
                    rd = ref_depth(r)
                except Exception:       # noqa
                    rd = None
                if rd is not None and rd <= limit:
                    cut = "@excluded-beyond-limit"
            if want is None:
                if limit is None:
                    acc.extra["cyclic_without_limit_not_judged"] += 1
                elif got != "perr":
                    viol("cyclic-" + got + cut, f"a cyclic input must be rejected with ParseError, got {got}: {short(r, 80)}")
                continue
            should_accept = limit is None or want <= limit
            if "+" not in dname and label.startswith("depth=") and "wrap" not in label and got in ("ok", "perr"):
                # the same value through the other entry points: a plain conversion, a function parameter, an element of a
                # list -- the limit counts data classes, not the way in
                for ename, efn in ENTRIES.items():
                    st2, r2 = call_guarded(lambda: efn(mod, cls, data), wall_s=3.0, step_budget=1_500_000)
                    acc.transitions += 1
                    got2 = "ok" if st2 == "ok" else ("perr" if isinstance(r2, uexc.ParseError) else "other")
                    if got2 != got:
                        viol(f"entry-{ename}-{got2}-vs-{got}", f"through {ename} the input is {'accepted' if got2 == 'ok' else 'rejected'} "
                                                             f"but the class itself {'accepts' if got == 'ok' else 'rejects'} it")
            if should_accept and got != "ok":
                viol(f"rejected-depth-{want}", f"nesting depth {want} <= limit but the input was rejected: {short(r, 100)}")
            elif not should_accept and got == "ok":
                viol(f"accepted-depth-{want}{cut}", f"nesting depth {want} > limit but the input was accepted")
            elif not should_accept and got != "perr":
                viol(f"exceeded-{got}", f"depth exceeded must surface as ParseError, got {got}")
            if acc.states % 37 == 0:
                acc.sample(dict(declaration=dname, max_depth=limit, input=label, reference_depth=want, outcome=got))
        unload(mod)


# ------------------------------------------------------------------------------------------------ cost

COST_DECLS = {
    "chain-optional": ("class N(Schema):\n{opt}    leaf: Leaf\n    nxt: Optional['N'] = None\n", "N", ["nxt"]),
    "chain-union-int": ("class N(Schema):\n{opt}    leaf: Leaf\n    nxt: Union['N', int] = 0\n", "N", ["nxt"]),
    "chain-union-int-first": ("class N(Schema):\n{opt}    leaf: Leaf\n    nxt: Union[int, 'N', None] = None\n", "N", ["nxt"]),
    # through an exclusive-or: every alternative is probed, the single one that accepts is the result (converted once)
    "chain-xor-int": ("class N(Schema):\n{opt}    leaf: Leaf\n    nxt: one_of('N', int) = 0\n", "N", ["nxt"]),
    "tree-list": ("class N(Schema):\n{opt}    leaf: Leaf\n    kids: List['N'] = Field(default_factory=list)\n", "N", ["kids[]"]),
    "tree-dict": ("class N(Schema):\n{opt}    leaf: Leaf\n    kids: Dict[str, 'N'] = Field(default_factory=dict)\n", "N", ["kids{}"]),
    "tree-union-collections": ("class N(Schema):\n{opt}    leaf: Leaf\n    kids: Union[List['N'], Dict[str, 'N'], None] = None\n", "N", ["kids[]"]),
    "union-two-classes": ("class P(Schema):\n{opt}    leaf: Leaf\n    nxt: Union['P', 'Q', None] = None\n"
                          "class Q(Schema):\n{opt}    leaf: Leaf\n    tag: int\n    nxt: Union['P', 'Q', None] = None\n", "P", ["nxt"]),
    "logical-two-classes": ("class P(Schema):\n{opt}    leaf: Leaf\n    nxt: any_of('P', 'Q', None) = None\n"
                            "class Q(Schema):\n{opt}    leaf: Leaf\n    tag: int\n    nxt: any_of('P', 'Q', None) = None\n", "P", ["nxt"]),
}
# the strictness preferences decide which of the union's stages exist: with both declared there is nothing to retry
COST_OPTS = {
    "default": {},
    "no_data_loss": dict(no_data_loss=True),
    "no_explicit_cast": dict(no_explicit_cast=True),
    "both-strict": dict(no_data_loss=True, no_explicit_cast=True),
}


def _opt_line(opts):
    if not opts:
        return ""
    return "    __options__ = Options(" + ", ".join(f"{k}={v!r}" for k, v in opts.items()) + ")\n"


LEAF_SRC = ("COUNT = [0]\nLIMIT = [10 ** 12]\n"
            "class CostExceeded(BaseException):\n    pass\n"
            "class Leaf:\n    def __init__(self, v):\n        self.v = v\n"
            "@utype.register_transformer(Leaf)\n"
            "def to_leaf(transformer, data, t):\n"
            "    COUNT[0] += 1\n"
            "    if COUNT[0] > LIMIT[0]:\n        raise CostExceeded(COUNT[0])\n"
            "    if isinstance(data, Leaf):\n        return data\n"
            "    if transformer.no_explicit_cast and not isinstance(data, int):\n        raise TypeError('strict: int only')\n"
            "    if data == 'bad':\n        raise ValueError('bad leaf')\n"
            "    return Leaf(int(data))\n")


def cost_input(how, depth, width, leaf, bottom_leaf):
    node = {"leaf": leaf if depth > 1 else bottom_leaf}
    if depth <= 1:
        return node, 1
    total = 1
    if how == "nxt":
        child, n = cost_input(how, depth - 1, width, leaf, bottom_leaf)
        node["nxt"] = child
        total += n
    elif how == "kids[]":
        kids = []
        for i in range(width):
            child, n = cost_input(how, depth - 1, width, leaf, bottom_leaf if i == width - 1 else leaf)
            kids.append(child)
            total += n
        node["kids"] = kids
    elif how == "kids{}":
        kids = {}
        for i in range(width):
            child, n = cost_input(how, depth - 1, width, leaf, bottom_leaf if i == width - 1 else leaf)
            kids[f"k{i}"] = child
            total += n
        node["kids"] = kids
    return node, total


def _judge_cost(acc, cname, oname, family, label, cls, count, data, n, prev_w, script_lines):
    """one counted conversion; returns (exploded?, leaf conversions)"""
    count[0] = 0
    acc.states += 1
    acc.transitions += 1
    bound = 4 * n * n + 8
    # deterministic cut-off, no timing: the counting leaf itself stops the parse (with a BaseException the library does
    # not catch) once the bound is crossed; the wall / step guard is only a backstop far beyond any polynomial cost
    sys.modules[cls.__module__].LIMIT[0] = bound + 1
    try:
        st, r = call_guarded(lambda: parse(cls, data), wall_s=120.0, step_budget=2_000_000_000)
    except BaseException as e:      # noqa
        if type(e).__name__ != "CostExceeded":
            raise
        st, r = "cost-exceeded", e
    w = count[0]
    acc.evaluations += 1
    acc.outcomes["ok" if st == "ok" else "rejected" if st == "exc" else st] += 1
    acc.nontrivial_add((cname, oname, family, label))
    key = f"max_leaf_conversions:{cname}:{oname}:{family}"
    acc.extra[key] = max(acc.extra.get(key, 0), w)
    if not (st == "nonterm" or w > bound):
        return False, w
    # the growth factor per nesting level identifies the mechanism (x2 / x3: the union's stages, x6: three stages
    # times two data-class members)
    # measured on the last two complete (not cut off) sizes
    ratio = prev_w[-1] / prev_w[-2] if prev_w and len(prev_w) >= 2 and prev_w[-2] else 0
    growth = "exponential" if ratio >= 1.8 else "other"       # the cost multiplies with every nesting level, or not
    fp = f"C18|cost|{cname}|opts={oname}|{family}|growth-{growth}"
    script = "\n".join(["import sys", "sys.path.insert(0, '/verif')", "from utmc.props import c18"] + script_lines + [
        "mod.COUNT[0] = 0", "try:", "    c18.parse(cls, data)", "except Exception as e:", "    print(type(e).__name__)",
        "print('nodes', n, 'leaf conversions', mod.COUNT[0], 'bound', 4 * n * n + 8)",
        "sys.exit(1 if mod.COUNT[0] > 4 * n * n + 8 else 0)"]) + "\n"
    acc.violation(fp, f"declaration '{cname}' options {oname} family {family} {label}: {n} input nodes cost {w} "
                      f"leaf conversions (bound {bound}; the parse is cut off there)" + (" and did not finish within the backstop" if st == "nonterm" else ""),
                  script)
    return True, w


def _cost(acc, cname, oname, tier):
    tmpl, root, hows = COST_DECLS[cname]
    how = hows[0]
    opts = COST_OPTS[oname]
    src = LEAF_SRC + tmpl.format(opt=_opt_line(opts))
    mod = load(src)
    cls = mod.__dict__[root]
    count = mod.__dict__["COUNT"]
    thorough = tier == "thorough"
    widths = [1] if how == "nxt" else ([1, 2, 3, 4] if thorough else [1, 2, 3])
    # width-1 chains go to depth 12: a doubling per level crosses 4 n^2 + 8 only at depth 10
    maxdepth = 20 if thorough else 12
    maxnodes = 1500 if thorough else 400
    for family, leaf, bottom in (("valid", 1, 1), ("lenient-only", "2", "2"), ("invalid-bottom-leaf", 1, "bad")):
        for width in widths:
            prev_w = []
            for depth in range(1, maxdepth + 1):
                if width ** depth > maxnodes or (width > 1 and depth > (10 if thorough else 8)):
                    continue
                data, n = cost_input(how, depth, width, leaf, bottom)
                boom, w = _judge_cost(acc, cname, oname, family, f"depth={depth} width={width}", cls, count, data, n, prev_w, [
                    f"mod = c18.load({src!r})", f"cls = mod.__dict__[{root!r}]",
                    f"data, n = c18.cost_input({how!r}, {depth}, {width}, {leaf!r}, {bottom!r})"])
                if boom:
                    break       # deeper inputs of an exploding family only cost time
                prev_w.append(w)
                if depth == maxdepth:
                    acc.sample(dict(declaration=cname, options=oname, family=family, width=width, depth=depth, nodes=n, leaf_conversions=w))
    unload(mod)
    # a self-containing input cut off by max_depth = d: the work must stay polynomial in d
    prev_w = []
    for d in range(2, 21 if thorough else 13):
        src = LEAF_SRC + tmpl.format(opt=_opt_line(dict(opts, max_depth=d)))
        mod = load(src)
        cls = mod.__dict__[root]
        count = mod.__dict__["COUNT"]
        boom, w = _judge_cost(acc, cname, oname, "cyclic-cut-by-limit", f"max_depth={d}", cls, count, cyclic_input(how), d, prev_w, [
            f"mod = c18.load({src!r})", f"cls = mod.__dict__[{root!r}]", f"data, n = c18.cyclic_input({how!r}), {d}"])
        unload(mod)
        if boom:
            break
        prev_w.append(w)
        if d == (20 if thorough else 12):
            acc.sample(dict(declaration=cname, options=oname, family="cyclic-cut-by-limit", max_depth=d, leaf_conversions=w))


def cyclic_input(how):
    cyc = {"leaf": 1}
    if how == "nxt":
        cyc["nxt"] = cyc
    elif how == "kids[]":
        cyc["kids"] = [cyc]
    else:
        cyc["kids"] = {"k0": cyc}
    return cyc
