"""C09 — logical type combinators mean what they say.

E1 with the arguments as black boxes: every combinator tree over the leaf alphabet (every argument order) is applied
to every input of the alphabet under the four conversion-flag combinations and compared with the statement's model,
in which `accepts(argument, x)` is measured by calling the argument alone on the real code.
Construction algebra (double negation, duplicates, Any, flattening) is checked on the built types and on behaviour.
"""
import itertools

from ..core import Acc, bootstrap, call_guarded

bootstrap()
from .. import e1, spec as S, typegram as tg   # noqa: E402
from ..universe import all_atoms, ev, _NS  # noqa: E402
from ..canon import canon, short  # noqa: E402
from .. import inputs as I  # noqa: E402

ID = "C09"
LEVEL = "model_checking"
RULE = ("product space: combinator trees (|, ^, & with 2-3 arguments in every order, ~; depth 2 trees over a reduced leaf "
        "set) over 16 leaves (builtin, constrained, Literal, generic, data class, Any) x the atom alphabet plus directed "
        "inputs x the 4 no_explicit_cast/no_data_loss combinations; each case is one call of the combined type plus one "
        "call per argument (the black-box `accepts`). Non-trivial when at least one argument accepts or converts")
ASSUMPTIONS = [
    "arguments are black boxes: accepts(A, x) is A applied alone to x on the real code under the same options; nested "
    "trees are judged compositionally (the inner combinator is a black box whose own behaviour is judged at depth 1)",
    "a union may reach an argument through its stricter stages, so 'the result conforms to an accepting argument' is "
    "judged with spec.conforms against the arguments that accept x",
    "& is the left fold of its arguments over the running value, as documented",
]

FLAGS = [{}, {"no_explicit_cast": True}, {"no_data_loss": True}, {"no_explicit_cast": True, "no_data_loss": True}]
DC = ("dc", "Schema", (("a", ("t", "int"), None), ("b", ("t", "str"), "'d'")), None)
LEAVES = tg.LOGIC_LEAVES + [DC]
INNER = [tg.INT_, ("t", "str"), tg.POSINT_, ("t", "NoneType"), ("g", "List", (("t", "int"),))]


def trees(tier):
    out = []
    for op in "|^&":
        for a, b in itertools.permutations(LEAVES, 2):
            out.append(("op", op, (a, b)))
    for a in LEAVES:
        out.append(("op", "~", (a,)))
    tri = LEAVES[:6] if tier != "thorough" else LEAVES[:9]
    for op in "|^&":
        for args in itertools.permutations(tri, 3):
            out.append(("op", op, tuple(args)))
    # depth 2: an inner combinator as an argument
    inner_ops = []
    for op in "|^&":
        for a, b in itertools.permutations(INNER, 2):
            inner_ops.append(("op", op, (a, b)))
    for a in INNER:
        inner_ops.append(("op", "~", (a,)))
    outer_leaves = [tg.INT_, ("t", "str"), ("t", "NoneType")] if tier != "thorough" else INNER
    step = 1 if tier == "thorough" else 4
    for i, inner in enumerate(inner_ops):
        if i % step:
            continue
        for op in "|^&":
            for leaf in outer_leaves:
                out.append(("op", op, (inner, leaf)))
                out.append(("op", op, (leaf, inner)))
        out.append(("op", "~", (inner,)))
    return out


def bounds(tier):
    return dict(trees=len(trees(tier)), leaves=len(LEAVES), atoms=len(all_atoms()), flag_sets=len(FLAGS))


CHUNK = 8
ALG_SHARDS = 12


def shards(tier):
    n = len(trees(tier))
    return [("algebra", i) for i in range(ALG_SHARDS)] + [("trees", i, min(i + CHUNK, n)) for i in range(0, n, CHUNK)]


_ACC_CACHE = {}


def stable_atoms():
    """atoms whose conversions do not depend on object addresses (str(object()) differs between two evaluations)"""
    out = []
    for v in all_atoms(include_deep=False):
        try:
            if " at 0x" in repr(ev(v)) or v in ("BadStr()",):
                continue
        except Exception:
            continue
        out.append(v)
    return out


_STABLE = {}


def _stable(v):
    r = _STABLE.get(v)
    if r is None:
        try:
            r = " at 0x" not in repr(ev(v)) and v != "BadStr()"
        except Exception:
            r = False
        _STABLE[v] = r
    return r


def stages(oi):
    """option sets through which a union may reach an argument (strict, no-loss, given)"""
    st = [oi]
    if oi != 3:
        st.append(3)
    if oi == 0:
        st.append(2)
    return st


def accepts(arg, oi, vx):
    """(accepted, result) of the argument alone on the real code; cached for leaves"""
    key = (arg, oi, vx)
    r = _ACC_CACHE.get(key)
    if r is None:
        fn, _, _ = e1.caller(arg, "tt", FLAGS[oi])
        st, payload = call_guarded(lambda: fn(ev(vx)), wall_s=1.0, step_budget=400_000)
        r = (st == "ok", payload if st == "ok" else None, st)
        if len(_ACC_CACHE) < 400_000:
            _ACC_CACHE[key] = r
    return r


def accepts_value(arg, oi, value):
    fn, _, _ = e1.caller(arg, "tt", FLAGS[oi])
    st, payload = call_guarded(lambda: fn(value), wall_s=1.0, step_budget=400_000)
    return st == "ok", payload if st == "ok" else None


def is_plain_class(arg):
    return arg[0] == "t" and arg[1] not in ("Any", "Sequence", "Mapping", "Iterable")


def run_shard(shard, tier):
    acc = Acc()
    if shard[0] == "algebra":
        _algebra(acc, tier, shard[1])
        return acc
    _, lo, hi = shard
    atoms = stable_atoms()
    for sp in trees(tier)[lo:hi]:
        op, args = sp[1], sp[2]
        vals = list(atoms)
        for a in args:
            if a[0] != "op":
                vals += I.directed_inputs(a, k=1)[:40]
        seen = set()
        vals = [v for v in vals if not (v in seen or seen.add(v)) and _stable(v)]
        for oi, opts in enumerate(FLAGS):
            try:
                fn, _, _ = e1.caller(sp, "tt", opts)
            except Exception as e:
                acc.extra["declarations_rejected_at_build"] += 1
                if len(acc.notes) < 10:
                    acc.notes.append(f"rejected: {S.type_expr(sp)}: {type(e).__name__}: {short(e, 80)}")
                continue
            for vx in vals:
                x = ev(vx)
                st, y = call_guarded(lambda: fn(x), wall_s=1.0, step_budget=400_000)
                acc.states += 1
                acc.transitions += 1 + len(args)
                ok = st == "ok"
                acc.outcomes[("accept-" if ok else "reject-") + OPNAME[op]] += 1
                _judge(acc, sp, op, args, oi, opts, vx, x, ok, y, st)
                if oi == 0 and st in ("ok", "exc"):
                    _assign(acc, sp, op, args, opts, vx, x, ok, y)
                if acc.states % 3001 == 0:
                    acc.sample(dict(type=S.type_expr(sp), options=opts, input=vx,
                                    outcome=("value " + short(y, 60)) if ok else "ParseError"))
        e1.reset_callers()
        if len(_ACC_CACHE) > 300_000:
            _ACC_CACHE.clear()
    return acc


def _judge(acc, sp, op, args, oi, opts, vx, x, ok, y, st):
    acc.evaluations += 1

    def viol(kind, msg):
        fp = f"C09|{OPNAME[op]}|{_argkinds(args)}|{kind}|{e1.value_shape(x) if st != 'nonterm' else '?'}|{_optkey(opts)}"
        acc.violation(fp, f"{S.type_expr(sp)} opts={opts} input={vx}: {msg}", _script(sp, opts, vx, op, args))

    if op == "~":
        a_ok, _, _ = accepts(args[0], oi, vx)
        if a_ok == ok:
            viol("negation-verdict", f"the argument {'accepts' if a_ok else 'rejects'} the input and so does its negation "
                                     f"{'accept' if ok else 'reject'}")
        elif ok and y is not x:
            viol("negation-not-identity", f"returned {short(y, 60)} instead of the input object")
        if ok or a_ok:
            acc.nontrivial_add((sp, oi, vx))
        return
    if op in "|^" and any(a == ("t", "Any") for a in args):
        # Any absorbs the whole combination (construction algebra): everything passes unchanged
        if not ok or y is not x:
            viol("any-not-absorbing", f"a combination containing Any {'rejected the input' if not ok else 'changed the input'}")
        return
    res = [accepts(a, oi, vx) for a in args]
    n_acc = sum(1 for r in res if r[0])
    if n_acc:
        acc.nontrivial_add((sp, oi, vx))
    if op == "|":
        exact = [a for a in args if is_plain_class(a) and type(x) is S._leaf_class(a[1])]
        if len(exact) == 1 or (exact and all(e_ == exact[0] for e_ in exact)):
            if not ok:
                viol("union-exact-rejected", "the input is an instance of exactly one argument class but was rejected")
            elif y is not x:
                viol("union-exact-changed", f"the input is an instance of exactly one argument class but {short(y, 60)} "
                                            f"was returned instead of the input object")
            return
        staged = [a for a in args if any(accepts(a, so, vx)[0] for so in stages(oi))]
        if ok != bool(staged):
            viol("union-verdict", f"the union {'accepts' if ok else 'rejects'} but {len(staged)} of its arguments accept the "
                                  f"input alone (under the given options or the stricter stages)")
            return
        if ok:
            okargs = staged
            if not any(_conforms(a, y) for a in okargs):
                viol("union-result", f"returned {short(y, 60)}, which conforms to none of the accepting arguments "
                                     f"{[S.type_expr(a) for a in okargs]}")
        return
    if op == "^":
        if ok != (n_acc == 1):
            viol(f"xor-verdict-{'accepts' if ok else 'rejects'}-with-{min(n_acc, 2)}",
                 f"the exclusive-or {'accepts' if ok else 'rejects'} but {n_acc} arguments accept the given input "
                 f"({[S.type_expr(a) for a, r in zip(args, res) if r[0]]})")
            return
        if ok:
            want = next(r[1] for r in res if r[0])
            if canon(y) != canon(want):
                viol("xor-result", f"returned {short(y, 60)}, the single accepting argument alone gives {short(want, 60)}")
        return
    if op == "&":
        val, good = x, True
        first = True
        for a in args:
            if first:
                g, v, _ = accepts(a, oi, vx)
                first = False
            else:
                g, v = accepts_value(a, oi, val)
            if not g:
                good = False
                break
            val = v
        if ok != good:
            viol("and-verdict", f"the conjunction {'accepts' if ok else 'rejects'} but the left fold of its arguments "
                                f"{'succeeds' if good else 'fails'}")
        elif ok and canon(y) != canon(val):
            viol("and-result", f"returned {short(y, 60)}, the left fold of the arguments gives {short(val, 60)}")


OPNAME = {"|": "or", "^": "xor", "&": "and", "~": "not"}
ASSIGN_FORMS = ["setattr", "setitem", "dsetattr"]


def _assign(acc, sp, op, args, opts, vx, x, ok, y):
    """the same combined type as the type of a field that is assigned to (attribute, item, DataClass attribute): the
    assignment runs in a context that raises at once, and must give the verdict and the value of the plain conversion"""
    for form in ASSIGN_FORMS:
        try:
            fn, _, _ = e1.caller(sp, form, opts)
        except Exception:       # noqa
            acc.extra["assignment_forms_rejected_at_build"] += 1
            continue
        st2, y2 = call_guarded(lambda: fn(ev(vx)), wall_s=1.0, step_budget=400_000)
        acc.transitions += 1
        ok2 = st2 == "ok"
        if ok2 == ok and (not ok or canon(y2) == canon(y)):
            continue
        fp = f"C09|{OPNAME[op]}|{_argkinds(args)}|assign-{form}-{'verdict' if ok2 != ok else 'value'}|{e1.value_shape(x)}|default"
        acc.violation(fp, f"{S.type_expr(sp)} input={vx}: converting gives {'a value' if ok else 'a rejection'} "
                          f"({short(y, 50)}) but assigning to a field of that type ({form}) gives "
                          f"{'a value' if ok2 else 'a rejection'} ({short(y2, 50)})",
                      "\n".join(["import sys", "sys.path.insert(0, '/verif')", "from utmc.ns import *", "from utmc.props import c09",
                                 "from utmc.canon import canon", f"sp = {sp!r}", "fa, _, _ = c09.e1.caller(sp, 'tt', {})",
                                 f"fb, _, _ = c09.e1.caller(sp, {form!r}, {{}})",
                                 "def r(f):", f"    try: return ('ok', canon(f({vx})))", "    except exc.ParseError as e: return ('rejected',)",
                                 "print(r(fa), r(fb)); sys.exit(0 if r(fa) == r(fb) else 1)"]) + "\n")


def _conforms(a, y):
    if a[0] == "op":
        return True       # inner combinator: judged on its own at depth 1
    try:
        return S.conforms(a, y)
    except Exception:
        return True


def _argkinds(args):
    def k(a):
        if a[0] == "op":
            return "(" + OPNAME[a[1]] + ")"
        return S.shape(a)
    return ",".join(k(a) for a in args)


def _optkey(opts):
    return ",".join(sorted(opts)) or "default"


def _script(sp, opts, vx, op, args):
    return "\n".join([
        "import sys", "sys.path.insert(0, '/verif')", "from utmc.ns import *", "from utmc.props import c09",
        f"sp = {sp!r}", f"opts = {opts!r}", "oi = c09.FLAGS.index(opts)",
        "acc = c09.Acc()", "fn, _, _ = c09.e1.caller(sp, 'tt', opts)", f"x = {vx}",
        "st, y = c09.call_guarded(lambda: fn(x))", "print('combined:', st, repr(y)[:200])",
        "for a in sp[2]: print('  argument', c09.S.type_expr(a), '->', c09.accepts(a, oi, " + repr(vx) + ")[::2])",
        f"c09._judge(acc, sp, {op!r}, sp[2], oi, opts, {vx!r}, x, st == 'ok', y, st)",
        "for fp, vs in acc.violations.items(): print(fp); print('  ', vs[0].summary)",
        "sys.exit(1 if acc.violations else 0)"]) + "\n"


# ---------------------------------------------------------------------------------------------- algebra

ALG_LEAVES = ["Int", "Str", "PositiveInt", "Float", "T(List[int])", "RC(str, max_length=3)", "Null"]
ALG_PLAIN = ["int", "str", "NoneType", "date"]


PRELUDE = "".join(f"L{i} = {e_}\n" for i, e_ in enumerate(ALG_LEAVES)) + "P = SC('P', Schema, None, a=(int,))\n"


def _same_type(a, b):
    # every evaluation of T(List[int]) builds a new (equivalent) class: compare the printed structure
    return a is b or (getattr(a, "__combinator__", None) == getattr(b, "__combinator__", None) and repr(a) == repr(b))


def _algebra(acc, tier, part):
    """construction algebra on the built types and on behaviour (every atom)"""
    atoms = stable_atoms()

    def build(expr):
        return eval(expr, _NS)

    def behave(t, x):
        try:
            return ("v", canon(t(x) if isinstance(t, _NS["LogicalType"]) else _NS["type_transform"](x, t)))
        except _NS["exc"].ParseError:
            return ("e",)
        except Exception as e:
            return ("other", type(e).__name__)

    counter = [0]

    def same_behaviour(kind, ea, eb, strict_type=True):
        counter[0] += 1
        if counter[0] % ALG_SHARDS != part:
            return
        try:
            ta, tb = build(ea), build(eb)
        except Exception as e:
            acc.violation(f"C09|algebra|{kind}|build-{type(e).__name__}", f"{ea} / {eb}: construction raised {type(e).__name__}: {e}",
                          f"from utmc.ns import *\n{PRELUDE}{ea}\n{eb}\n")
            return
        acc.states += 1
        acc.evaluations += 1
        if strict_type and not _same_type(ta, tb):
            acc.violation(f"C09|algebra|{kind}|structure", f"{ea} builds {ta!r} but {eb} builds {tb!r}",
                          "import sys\nsys.path.insert(0, '/verif')\nfrom utmc.ns import *\n" + PRELUDE +
                          f"a = {ea}\nb = {eb}\nprint(repr(a), repr(b))\n"
                          "sys.exit(0 if (a is b or (getattr(a,'__combinator__',None) == getattr(b,'__combinator__',None) and "
                          "list(getattr(a,'__args__',())) == list(getattr(b,'__args__',())))) else 1)\n")
            return
        for vx in atoms:
            acc.transitions += 2
            ra, rb = behave(ta, ev(vx)), behave(tb, ev(vx))
            if ra != rb:
                acc.violation(f"C09|algebra|{kind}|behaviour", f"{ea} and {eb} differ on {vx}: {ra} vs {rb}",
                              "import sys\nsys.path.insert(0, '/verif')\nfrom utmc.ns import *\nfrom utmc.canon import canon\n" + PRELUDE +
                              f"a = {ea}\nb = {eb}\nx = {vx}\n"
                              "def r(t):\n    try: return canon(t(x))\n    except exc.ParseError: return 'error'\n"
                              "print(r(a), r(b)); sys.exit(0 if r(a) == r(b) else 1)\n")
                break
        acc.nontrivial_add((kind, ea, eb))

    # each leaf is built once and named, so that `A | A` really repeats the same type
    leaves = []
    for i, e_ in enumerate(ALG_LEAVES):
        _NS[f"L{i}"] = eval(e_, _NS)
        leaves.append(f"L{i}")
    acc.notes.append("algebra leaves: " + ", ".join(f"L{i} = {e_}" for i, e_ in enumerate(ALG_LEAVES)))
    for a in leaves:
        same_behaviour("double-negation", f"~~{a}", a)
        same_behaviour("duplicate-or", f"{a} | {a}", a)
        same_behaviour("duplicate-xor", f"{a} ^ {a}", a)
        same_behaviour("duplicate-and", f"{a} & {a}", a)
        same_behaviour("any-or", f"{a} | Any", "Rule")
        same_behaviour("any-and", f"{a} & Any", a)
        same_behaviour("any-and-left", f"Any & {a}", a)
        same_behaviour("not-of", f"not_of({a})", f"~{a}")
    for a, b in itertools.permutations(leaves, 2):
        same_behaviour("function-form-or", f"{a} | {b}", f"any_of({a}, {b})")
        same_behaviour("function-form-xor", f"{a} ^ {b}", f"one_of({a}, {b})")
        same_behaviour("function-form-and", f"{a} & {b}", f"all_of({a}, {b})")
        same_behaviour("duplicate-or-3", f"{a} | {b} | {a}", f"{a} | {b}")
        for p in ALG_PLAIN:
            same_behaviour("plain-operand-or", f"{p} | {a} | {b}", f"any_of({p}, {a}, {b})")
            same_behaviour("plain-operand-or-right", f"{a} | {b} | {p}", f"any_of({a}, {b}, {p})")
            same_behaviour("plain-operand-and", f"{a} & {p}", f"all_of({a}, {p})")
            same_behaviour("plain-operand-xor", f"{p} ^ {a}", f"one_of({p}, {a})")
        same_behaviour("typing-union-operand", f"{a} | Union[int, {b}]", f"any_of({a}, int, {b})")
        same_behaviour("typing-optional-operand", f"{a} | Optional[{b}]", f"any_of({a}, {b}, NoneType)")
    tri = leaves[:5] if tier != "thorough" else leaves
    for a, b, c in itertools.permutations(tri, 3):
        for op, fn in (("|", "any_of"), ("^", "one_of"), ("&", "all_of")):
            same_behaviour(f"flatten-left-{OPNAME[op]}", f"({a} {op} {b}) {op} {c}", f"{fn}({a}, {b}, {c})")
            same_behaviour(f"flatten-right-{OPNAME[op]}", f"{a} {op} ({b} {op} {c})", f"{fn}({a}, {b}, {c})")
            # a combined type that was used as an operand of the same operator is still what it was
            same_behaviour(f"operand-unchanged-{OPNAME[op]}", f"AFTER_USE({a} {op} {b}, {op!r}, {c})", f"{a} {op} {b}")
    # data classes as operands (LogicalMeta)
    dc = "SC('P', Schema, None, a=(int,))"
    env_setup = f"P = {dc}"
    exec(env_setup, _NS)
    for a in leaves[:4]:
        same_behaviour("dataclass-operand-or", f"P | {a}", f"any_of(P, {a})")
        same_behaviour("dataclass-operand-ror", f"{a} | P", f"any_of({a}, P)")
        same_behaviour("dataclass-operand-and", f"P & {a}", f"all_of(P, {a})")
        same_behaviour("dataclass-operand-xor", f"P ^ {a}", f"one_of(P, {a})")
    same_behaviour("dataclass-double-negation", "~~P", "P")
    same_behaviour("dataclass-optional", "P | None", "any_of(P, NoneType)")
