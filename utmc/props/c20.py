"""C20 — concurrent use is safe, including the first use of a type.

E3: real threads run real library calls under the controlled scheduler of utmc.e3 (scheduling points = line events in
the instrumented shared-state functions of utype); every interleaving up to the preemption bound is executed on fresh
state and each call's outcome is compared with its outcome when run alone.
"""
import sys
import types

from ..core import Acc, bootstrap

bootstrap()
from .. import e3        # noqa: E402
from ..universe import _NS        # noqa: E402
from ..canon import canon, short  # noqa: E402

import utype   # noqa: E402
from utype.parser import base as _pbase, rule as _prule, field as _pfield, func as _pfunc, cls as _pcls   # noqa: E402
from utype.utils import base as _ubase, transform as _utransform, compat as _ucompat   # noqa: E402

# utype guards the first-use resolution with a lock: under the controlled scheduler it must be a cooperative one
_pbase.threading = types.SimpleNamespace(RLock=e3.CoopRLock, Lock=e3.CoopRLock)
if hasattr(_pbase, "__forward_refs_lock__"):
    # the lock shared by all parsers was made at import time: a real lock would park a thread the scheduler counts as running
    _pbase.__forward_refs_lock__ = e3.CoopRLock()

ID = "C20"
LEVEL = "model_checking"
# every shard starts in a newly forked worker: the first execution of a scenario in a process includes utype's one-time
# lazy initialisations (more scheduling points), so the schedule count would otherwise depend on the worker's history
FRESH_WORKER_PER_SHARD = True
RULE = ("schedules: for each of 13 scenarios (first parse of classes with pending forward references - module level and "
        "function-local; first parse of mutually recursive classes from both ends; conversions racing a registration in "
        "the shared converter registry; first calls of a decorated function with forward-referenced types; concurrent "
        "decoration of one function) every interleaving of 2 threads with at most 1 preemption (quick); of 2 threads with at "
        "most 2 preemptions and of 3 threads with at most 1 preemption (thorough), at line granularity of the instrumented functions; state = one schedule (choice sequence), "
        "transitions = scheduling points; every schedule with at least one context switch inside the instrumented code "
        "is non-trivial")
ASSUMPTIONS = [
    "scheduling points are the line events of the instrumented functions (BaseParser.__call__ / resolve_forward_refs / "
    "apply_for / resolve_parser, FunctionParser / ParserField / Rule / LogicalType.resolve_forward_refs, "
    "register_forward_ref, resolve_forward_type, evaluate_forward_ref, TypeRegistry.register / resolve, "
    "TypeTransformer.__call__ / apply, init_dataclass, transform_dataclass); code outside them runs atomically",
    "CPython with the GIL: switches inside C-level calls and free-threaded builds are not modelled",
    "every execution starts from fresh state: the scenario source is re-executed into a new module, typing's caches, "
    "the parser cache and the registry cache are reset; a failing schedule is replayed and must reproduce",
]

NAMES = {"__call__", "resolve_forward_refs", "_resolve_forward_refs", "_register_rule_refs", "generate_generator_types", "setup_discriminator", "apply_for", "resolve_parser", "register_forward_ref", "resolve_forward_type",
         "evaluate_forward_ref", "register", "resolve", "apply", "resolve_extra_forward_types", "init_dataclass",
         "transform_dataclass", "decorator", "resolver_transformer", "register_forward_refs", "parse_annotation"}
_INSTR = None


def instrumented():
    global _INSTR
    if _INSTR is None:
        _INSTR = e3.collect_code([_pbase, _prule, _pfield, _pfunc, _pcls, _ubase, _utransform, _ucompat], NAMES)
    return _INSTR


# ------------------------------------------------------------------------------------------------ scenarios

SRC_MODULE = '''
from utmc.ns import *
class A(Schema):
    v: int
    bs: List['B'] = Field(default_factory=list)
    ob: Optional['B'] = None
class B(Schema):
    w: int
    a: Optional['A'] = None
    more: Dict[str, 'B'] = Field(default_factory=dict)
'''
SRC_LOCAL = '''
from utmc.ns import *
def make():
    class A(Schema):
        v: int
        bs: List['B'] = Field(default_factory=list)
        ob: Optional['B'] = None
    class B(Schema):
        w: int
        a: Optional['A'] = None
    return A, B
A, B = make()
'''
SRC_FUNC = '''
from utmc.ns import *
@utype.parse
def F(x: 'A', ys: List['B'] = None) -> 'B':
    return dict(w=x.v + len(ys or []))
class A(Schema):
    v: int
class B(Schema):
    w: int
'''
SRC_RAW = '''
from utmc.ns import *
class A(Schema):
    v: int
def raw(x: A, n: int = 0) -> int:
    return x.v + n
'''
SRC_REG = '''
from utmc.ns import *
class Base:
    def __init__(self, v):
        self.v = v
class Sub(Base):
    pass
@utype.register_transformer(Base)
def to_base(transformer, data, t):
    return t(('base', data))
def new_converter(transformer, data, t):
    return t(('sub', data))
'''

SRC_CONSTRAINED = '''
from utmc.ns import *
class Order(Schema):
    amount: 'Amount' = Field(le=100)
    tags: List['Tag'] = Field(default_factory=list, max_length=2)
class Amount(int, Rule):
    ge = 0
class Tag(str, Rule):
    max_length = 3
'''

SRC_BASE_SUB = '''
from utmc.ns import *
class Base(Schema):
    level: 'Level' = Field(ge=1)
    n: int = 0
class Sub(Base):
    extra: int = 0
Level = int
'''

SRC_REG_MANY = '''
from utmc.ns import *
class KB(int):
    pass
@utype.register_transformer(KB)      # the latest registration: found at once, so a first resolution is a few lines long
def to_kb(transformer, data, t):
    return t(int(data))
KS = [type("K%d" % i, (KB,), {}) for i in range(150)]
for _k in KS[1:100] + KS[:1]:
    type_transform(1, _k)       # the resolution cache of the shared registry knows 100 types, KS[0] is the latest
def many(lo, hi):
    # first resolution of further types, through the registry itself (fewer scheduling points than full conversions)
    reg = utype.TypeTransformer.registry
    return len([reg.resolve(k) for k in KS[lo:hi]])
'''

SRC_TYPE = '''
from utmc.ns import *
class Shelf(Schema):
    kind: Type['Cover']
    cover: Optional['Cover'] = None
    kinds: List[Type['Cover']] = Field(default_factory=list)
class Cover(Schema):
    v: int = 0
class Hard(Cover):
    pass
'''
SRC_TYPE_LOCAL = '''
from utmc.ns import *
def make():
    class Shelf(Schema):
        kind: Type['Cover']
        cover: Optional['Cover'] = None
    class Cover(Schema):
        v: int = 0
    class Hard(Cover):
        pass
    return Shelf, Cover, Hard
Shelf, Cover, Hard = make()
'''

SRC_SHARED_ALIAS = '''
from utmc.ns import *
class A(Schema):
    lines: List['Item'] = Field(default_factory=list)
class B(Schema):
    lines: List['Item'] = Field(default_factory=list)
    first: Optional['Item'] = None
class Item(Schema):
    v: int
'''
# a warm cache entry for Sub (converted once before the threads start) and a registration for an unrelated class
SRC_REG_WARM = SRC_REG + '''
class Other:
    pass
def other_converter(transformer, data, t):
    return t()
type_transform(0, Sub)
'''

SRC_GEN_WHOLE = '''
from utmc.ns import *
@utype.parse
def g(n: int) -> 'Iterator[Item]':
    for i in range(n):
        yield dict(v=str(i))
class Item(Schema):
    v: int
'''

A_IN = {"v": "1", "bs": [{"w": "2", "a": {"v": 3}}], "ob": {"w": 4}}
B_IN = {"w": "5", "a": {"v": 6, "bs": [{"w": 7}]}, "more": {"k": {"w": 8}}}
B_LOCAL_IN = {"w": "5", "a": {"v": 6, "bs": [{"w": 7}]}}


def plain(v, depth=0):
    if isinstance(v, dict):
        return {k: plain(x, depth + 1) for k, x in dict.items(v)}
    if isinstance(v, (list, tuple)):
        return [plain(x, depth + 1) for x in v]
    if hasattr(v, "v") and not hasattr(type(v), "__parser__"):
        return ("obj", type(v).__name__, plain(v.v))
    return v


SCENARIOS = {
    # name: (source, [thread call expressions], solo check expression)
    "first-parse-module": (SRC_MODULE, ["A.__from__(A_IN)", "A.__from__(A_IN)", "B.__from__(B_IN)"], "A.__from__(A_IN)"),
    "first-parse-both-ends": (SRC_MODULE, ["A.__from__(A_IN)", "B.__from__(B_IN)", "A.__from__(A_IN)"], "B.__from__(B_IN)"),
    "first-parse-local": (SRC_LOCAL, ["A.__from__(A_IN)", "A.__from__(A_IN)", "B.__from__(B_LOCAL_IN)"], "A.__from__(A_IN)"),
    "first-parse-local-both-ends": (SRC_LOCAL, ["A.__from__(A_IN)", "B.__from__(B_LOCAL_IN)", "B.__from__(B_LOCAL_IN)"], "B.__from__(B_LOCAL_IN)"),
    "function-first-call": (SRC_FUNC, ["F({'v': '1'}, [{'w': 2}])", "F({'v': 3})", "F({'v': '1'}, [{'w': 2}])"], "F({'v': 3})"),
    "concurrent-decoration": (SRC_RAW, ["utype.parse(raw)({'v': '1'}, '2')", "utype.parse(raw)({'v': 3})", "utype.parse(raw)({'v': '1'}, '2')"],
                              "utype.parse(raw)({'v': 3})"),
    # a forward reference that also carries Field constraints: the window between "evaluated" and "constrained type built"
    "constrained-forward-ref": (SRC_CONSTRAINED, ["Order(amount='50', tags=['ab'])", "Order(amount=500)", "Order(amount=5, tags=['a', 'b', 'c'])"],
                                "Order(amount=101)"),
    # Type['X']: a half-resolved field type is visible at once (issubclass against a ForwardRef)
    "type-ref-first-parse": (SRC_TYPE, ["Shelf(kind=Hard).kind.__name__", "Shelf(kind=Cover, cover={'v': '1'}, kinds=[Hard]).cover.v",
                                        "Shelf(kind=Hard).kind.__name__"], "Shelf(kind=Cover, kinds=[Hard, Cover]).kind.__name__"),
    "type-ref-first-parse-local": (SRC_TYPE_LOCAL, ["Shelf(kind=Hard).kind.__name__", "Shelf(kind=Cover, cover={'v': '1'}).cover.v",
                                                    "Shelf(kind=Hard).kind.__name__"], "Shelf(kind=Cover).kind.__name__"),
    # two classes spell the same reference identically: typing hands both the same ForwardRef object, each has its own parser
    "shared-alias-two-classes": (SRC_SHARED_ALIAS, ["A.__from__({'lines': [{'v': '1'}]}).lines[0].v", "B.__from__({'lines': [{'v': 2}], 'first': {'v': '3'}}).first.v",
                                                    "A.__from__({'lines': [{'v': '1'}]}).lines[0].v"], "B.__from__({'lines': [{'v': 4}]}).lines[0].v"),
    # the whole return annotation of a generator is one pending reference: its yield type exists only after resolution
    "generator-whole-annotation-ref": (SRC_GEN_WHOLE, ["[type(x).__name__ for x in g(2)]", "[x.v for x in g('3')]", "[type(x).__name__ for x in g(2)]"],
                                       "[type(x).__name__ for x in g(1)]"),
    # a subclass shares the pending references and the fields of its base, but each class has a parser of its own
    "base-sub-constrained-ref": (SRC_BASE_SUB, ["Base(level='5').level", "Sub(level=0, extra='1')", "Sub(level='2').level"], "Base(level=0)"),
    # a well-filled resolution cache: one thread reads an entry while another one resolves a type for the first time
    "registry-cache-many-types": (SRC_REG_MANY, ["type_transform('5', KS[0]) + 0", "many(100, 140)", "type_transform('7', KS[0]) + 0"],
                                  "type_transform('2', KS[0]) + 0"),
    "registry-race-warm": (SRC_REG_WARM, ["type_transform(1, Sub)", "type_transform(2, Sub)", "utype.register_transformer(Other)(other_converter) and None"],
                           "type_transform(2, Sub)"),
    "registry-race": (SRC_REG, ["type_transform(1, Sub)", "type_transform(2, Sub)", "utype.register_transformer(Sub)(new_converter) and None"],
                      "type_transform(2, Sub)"),
}
_SEQ = [0]


def fresh(src):
    import typing
    for f in typing._cleanups:
        f()
    _pbase.__parsers__.clear()
    _SEQ[0] += 1
    mod = types.ModuleType(f"utmc_c20_{_SEQ[0]}")
    mod.__dict__.update(dict(A_IN=A_IN, B_IN=B_IN, B_LOCAL_IN=B_LOCAL_IN))
    sys.modules[mod.__name__] = mod
    exec(compile(src, f"<{mod.__name__}>", "exec"), mod.__dict__)
    return mod


class RegistryGuard:
    """snapshot / restore of the process-wide transformer registry around one execution"""

    def __enter__(self):
        reg = _utransform.TypeTransformer.registry
        self.reg = reg
        self.saved = (list(reg._registry), dict(reg._cache))
        reg._cache.clear()
        return self

    def __exit__(self, *a):
        self.reg._registry[:] = self.saved[0]
        self.reg._cache.clear()
        self.reg._cache.update(self.saved[1])


def outcome(v):
    st, payload = v
    if st == "ok":
        return ("ok", canon(plain(payload)))
    return ("exc", type(payload).__name__, str(payload)[:160])


def solo_outcomes(name, nthreads):
    """each call alone on fresh state (the registry scenario: before and after the registration)"""
    src, calls, after = SCENARIOS[name]
    out = []
    for i in range(nthreads):
        with RegistryGuard():
            mod = fresh(src)
            try:
                r = ("ok", eval(calls[i], mod.__dict__))
            except Exception as e:
                r = ("exc", e)
            allowed = {outcome(r)}
            if name.startswith("registry-race") and i < 2:
                # linearizable: the conversion runs entirely before or entirely after the registration
                mod2 = fresh(src)
                eval(calls[2], mod2.__dict__)
                try:
                    r2 = ("ok", eval(calls[i], mod2.__dict__))
                except Exception as e:
                    r2 = ("exc", e)
                allowed.add(outcome(r2))
            sys.modules.pop(mod.__name__, None)
        out.append(allowed)
    return out


# (threads, preemption bound, parts) explored completely per tier.  3 threads with 2 preemptions would be ~10^6 schedules
# per scenario at ~25 ms each (a fresh module and fresh threads per schedule): not affordable, and not claimed.
CONFIGS = {"quick": [(2, 1, 2)], "thorough": [(2, 2, 16), (3, 1, 4)]}


def bounds(tier):
    return dict(scenarios=list(SCENARIOS), threads_and_preemption_bounds=[(n, b) for n, b, _ in CONFIGS[tier]],
                granularity="source line of the instrumented functions", instrumented_functions=len(instrumented()))


def shards(tier):
    return [(name, k, parts, n, b) for n, b, parts in CONFIGS[tier] for name in SCENARIOS for k in range(parts)]


def _rle(choices):
    """a schedule as run lengths: [[choice, count], ...]"""
    out = []
    for c in choices:
        if out and out[-1][0] == c:
            out[-1][1] += 1
        else:
            out.append([c, 1])
    return out


def run_shard(shard, tier):
    name, k, parts, nthreads, bound = shard
    acc = Acc()
    src, calls, after = SCENARIOS[name]
    if name.startswith("registry-race"):
        order = [0, 2, 1] if nthreads == 3 else [0, 2]       # the registering thread always takes part
    else:
        order = list(range(nthreads))
    solo = solo_outcomes(name, 3)
    with RegistryGuard():
        m = fresh(src)
        if name.startswith("registry-race"):
            eval(calls[2], m.__dict__)
        try:
            after_want = outcome(("ok", eval(after, m.__dict__)))
        except Exception as e:
            after_want = outcome(("exc", e))
        sys.modules.pop(m.__name__, None)
    state = {}

    def make_bodies():
        guard = RegistryGuard()
        guard.__enter__()
        mod = fresh(src)
        state["mod"], state["guard"] = mod, guard
        return [(lambda expr=calls[i], d=mod.__dict__: eval(expr, d)) for i in order]

    def check(ex, prefix):
        mod, guard = state["mod"], state["guard"]
        acc.states += 1
        acc.transitions += len(ex.points)
        acc.evaluations += 1
        switches = sum(1 for p in ex.points if p.chosen > 0)
        if switches:
            acc.nontrivial_add((name, tuple(ex.choices)))
        problems = []
        if ex.hung:
            problems.append(("hang", "the threads did not finish (deadlock or livelock under this schedule)"))
        for slot, ti in enumerate(order):
            got = outcome(ex.outcomes.get(slot, ("exc", RuntimeError("thread produced no outcome"))))
            acc.outcomes[got[0] if got[0] == "ok" else got[1]] += 1
            if got not in solo[ti]:
                problems.append((f"thread-{got[1] if got[0] == 'exc' else 'wrong-value'}",
                                 f"thread {slot} ({calls[ti]}) gives {short(got, 200)}; run alone it gives {short(sorted(solo[ti], key=repr), 200)}"))
        # a solo parse after all threads finished must still give the baseline
        try:
            fin = outcome(("ok", eval(after, mod.__dict__)))
        except Exception as e:
            fin = outcome(("exc", e))
        if fin != after_want and not ex.hung:
            problems.append(("after-" + (fin[1] if fin[0] == "exc" else "wrong-value"),
                             f"after all threads finished, {after} gives {short(fin, 160)} instead of {short(after_want, 160)}"))
        guard.__exit__()
        sys.modules.pop(mod.__name__, None)
        if problems:
            # a failing schedule is replayed and must fail again before it is reported
            ex2 = e3.run_schedule(make_bodies, ex.choices, instrumented())
            again = any(outcome(ex2.outcomes.get(s, ("exc", RuntimeError("none")))) not in solo[ti] for s, ti in enumerate(order)) or ex2.hung
            state["guard"].__exit__()
            sys.modules.pop(state["mod"].__name__, None)
            if not again and not any(pk.startswith("after-") for pk, _ in problems):
                raise RuntimeError(f"harness error: schedule {ex.choices} of {name} failed once and passed on replay")
            for kind, msg in problems[:2]:
                fp = f"C20|{name}|{kind}"
                acc.violation(fp, f"scenario {name}, threads {[calls[t] for t in order]}, schedule (run lengths [choice, count]) {_rle(ex.choices)} "
                                  f"({switches} switches, {ex.preemptions_before(len(ex.points))} preemptions): {msg}",
                              _script(name, nthreads, ex.choices))
        elif acc.states % 53 == 0:
            acc.sample(dict(scenario=name, threads=nthreads, schedule_run_lengths=_rle(ex.choices), points=len(ex.points), switches=switches))

    n, maxp, capped = e3.explore(make_bodies, instrumented(), bound, check, part=(k, parts))
    acc.extra[f"schedules:{name}:threads={nthreads},preemptions<={bound}"] += n
    acc.extra[f"max_points_per_execution:{name}:threads={nthreads}"] = max(acc.extra.get(f"max_points_per_execution:{name}:threads={nthreads}", 0), maxp)
    if capped:
        acc.caps.append(f"schedule cap hit in {name}")
    return acc


def _script(name, nthreads, choices):
    return "\n".join([
        "import sys", "sys.path.insert(0, '/verif')", "from utmc.props import c20", "from utmc import e3",
        f"name, nthreads, choices = {name!r}, {nthreads!r}, {choices!r}",
        "src, calls, after = c20.SCENARIOS[name]",
        "order = ([0, 2, 1] if nthreads == 3 else [0, 2]) if name.startswith('registry-race') else list(range(nthreads))",
        "solo = c20.solo_outcomes(name, 3)", "state = {}",
        "def make_bodies():", "    g = c20.RegistryGuard(); g.__enter__(); mod = c20.fresh(src); state['g'] = g",
        "    return [(lambda expr=calls[i], d=mod.__dict__: eval(expr, d)) for i in order]",
        "ex = e3.run_schedule(make_bodies, choices, c20.instrumented()); state['g'].__exit__()",
        "bad = ex.hung",
        "for slot, ti in enumerate(order):", "    got = c20.outcome(ex.outcomes.get(slot, ('exc', RuntimeError('none'))))",
        "    print('thread', slot, calls[ti], '->', got, '| alone:', sorted(solo[ti], key=repr))",
        "    bad = bad or got not in solo[ti]",
        "sys.exit(1 if bad else 0)"]) + "\n"
