"""C11 — exclude / preserve policies touch only the offending elements.

E1, metamorphic with the element types as black boxes: for every container type, input container and policy
combination the result is compared with the model built from per-element judgements (element type applied alone to
the element under the same options on the real code): `exclude` = the non-offending elements converted, `preserve`
= the same with the offending elements put back unchanged at their positions, `throw` = error iff some element
offends.  `exclude` is additionally compared with strict parsing of the input minus the offending elements.
"""
import itertools

from ..core import Acc, bootstrap

bootstrap()
from ..universe import _NS, ev        # noqa: E402
from ..canon import short, canon     # noqa: E402

from utype.utils import exceptions as uexc   # noqa: E402

ID = "C11"
LEVEL = "model_checking"
RULE = ("product space: List / Set / FrozenSet / Tuple[...,...] / Deque over 3 element types, Dict over 2 key x 2 value "
        "types, List[List[L]], Dict[str, List[L]], data-class fields with on_error, extra keys with addition=int and "
        "*args:int x every input container (list / tuple / set spelling; utype does not unpack generators) of length <= 3 (quick) / 7 (thorough) over "
        "{valid, convertible, invalid, other invalid} x the policy combinations that apply (all 27 for mappings) x "
        "{type_transform, data-class field}; state = one (type, policy, input), transitions = one parse of the container "
        "+ one black-box parse per element. Non-trivial when at least one element offends")
ASSUMPTIONS = [
    "an element offends iff its element type applied alone to it raises, under the same options (black box on the real "
    "code); its strict conversion is what that call returns",
    "set results are compared order-insensitively; a mapping item is dropped when its key or its value is excluded",
]

LEAVES = {
    "int": ("int", ["1", "'2'", "'x'", "(3, 4)"]),
    # elements whose conversion fails with another exception class than TypeError / ValueError (OverflowError,
    # decimal.InvalidOperation): they offend like any other
    "intof": ("int", ["1", "'2'", "float('inf')", "'x'"]),
    "dec": ("Decimal", ["Decimal('1.5')", "'2'", "'abc'", "(1,)"]),
    "posint": ("PositiveInt", ["1", "'2'", "-1", "'x'"]),
    "lower": ("RC(str, regex='[a-z]+')", ["'a'", "'bc'", "'1'", "5"]),
}
KEYS = {
    "lowerkey": ("RC(str, regex='[a-z]+')", ["'a'", "'bc'", "'1'", "5"]),
    "intkey": ("int", ["1", "'2'", "'x'", "'y7'"]),
    "intofkey": ("int", ["1", "'2'", "float('inf')", "'x'"]),
}
POLICIES = ["throw", "exclude", "preserve"]
SEQ_CTORS = ["List", "Set", "FrozenSet", "TupleVar", "Deque"]


def specs(tier):
    """-> list of (kind, annotation expr, meta)"""
    out = []
    for c in SEQ_CTORS:
        for l in LEAVES:
            ann = {"List": "List[{0}]", "Set": "Set[{0}]", "FrozenSet": "FrozenSet[{0}]", "TupleVar": "Tuple[{0}, ...]",
                   "Deque": "typing.Deque[{0}]"}[c].format(LEAVES[l][0])
            out.append(("seq", ann, (c, l)))
            if c in ("List", "Set", "TupleVar") and l in ("int", "posint"):
                # the same container reached through a union: the union's probing stages must not apply the policy
                out.append(("seq", f"Optional[{ann}]", (c, l)))
                out.append(("seq", f"Union[None, {ann}]", (c, l)))
                out.append(("seq", f"any_of({ann}, None)", (c, l)))
    for k in KEYS:
        for v in ("int", "posint", "intof", "dec"):
            if k == "intofkey" and v in ("posint", "dec"):
                continue
            out.append(("map", f"Dict[{KEYS[k][0]}, {LEAVES[v][0]}]", (k, v)))
            if v == "int":
                out.append(("map", f"Optional[Dict[{KEYS[k][0]}, {LEAVES[v][0]}]]", (k, v)))
    for l in ("int", "posint"):
        out.append(("nested-seq", f"List[List[{LEAVES[l][0]}]]", (l,)))
        out.append(("nested-map", f"Dict[str, List[{LEAVES[l][0]}]]", (l,)))
    for l in LEAVES:
        out.append(("fields", LEAVES[l][0], (l,)))
        out.append(("addition", LEAVES[l][0], (l,)))
        out.append(("varargs", LEAVES[l][0], (l,)))
        out.append(("props", LEAVES[l][0], (l,)))
    return out


def bounds(tier):
    return dict(types=len(specs(tier)), element_values=4, max_len=7 if tier == "thorough" else 3, policies=POLICIES)


def shards(tier):
    return [("spec", i) for i in range(len(specs(tier)))]


_OPTS = {}


def opts(items="throw", keys="throw", values="throw", extra=""):
    k = (items, keys, values, extra)
    o = _OPTS.get(k)
    if o is None:
        o = _OPTS[k] = eval(f"Options(invalid_items={items!r}, invalid_keys={keys!r}, invalid_values={values!r}{extra})", _NS)
    return o


def alone(texpr, vx, o, cache):
    """black box: (ok, converted) of the element type alone on the value"""
    key = (texpr, vx, id(o))
    r = cache.get(key)
    if r is None:
        t = cache.get(("type", texpr))
        if t is None:
            t = cache[("type", texpr)] = eval(f"T({texpr})", _NS)
        try:
            r = (True, _NS["type_transform"](ev(vx), t, options=o))
        except Exception:
            r = (False, None)
        cache[key] = r
    return r


def seq_inputs(values, maxlen, hashable_only=False):
    for n in range(0, maxlen + 1):
        for combo in itertools.product(values, repeat=n):
            yield combo


def run_shard(shard, tier):
    acc = Acc()
    _CUR["shard"], _CUR["tier"] = shard, tier
    kind, ann, meta = specs(tier)[shard[1]]
    cache = {}
    maxlen = 7 if tier == "thorough" else 3
    if kind == "seq":
        _seq(acc, ann, meta, maxlen, cache, tier)
    elif kind == "map":
        _map(acc, ann, meta, maxlen, cache, tier)
    elif kind == "nested-seq":
        _nested_seq(acc, ann, meta, maxlen, cache)
    elif kind == "nested-map":
        _nested_map(acc, ann, meta, maxlen, cache)
    elif kind == "fields":
        _fields(acc, ann, meta, cache)
    elif kind == "addition":
        _addition(acc, ann, meta, cache)
    elif kind == "varargs":
        _varargs(acc, ann, meta, maxlen, cache)
    elif kind == "props":
        _props(acc, ann, meta, cache)
    return acc


def parse(t, x, o):
    try:
        return ("ok", _NS["type_transform"](x, t, options=o))
    except uexc.ParseError as e:
        return ("err", e)
    except Exception as e:
        return ("other", e)


_CUR = {"shard": None, "tier": "quick"}


def _viol(acc, kind, ann, pol, xexpr, msg, form="tt"):
    fp = f"C11|{kind}|{_ann_shape(ann)}|{pol}|{form}"
    # the replay re-explores the (small) shard this case belongs to and looks for the same fingerprint
    script = "\n".join([
        "import sys", "sys.path.insert(0, '/verif')", "from utmc.props import c11",
        f"acc = c11.run_shard({_CUR['shard']!r}, {_CUR['tier']!r})",
        f"hits = acc.violations.get({fp!r}, [])",
        "for v in hits: print(v.summary)",
        "sys.exit(1 if hits else 0)"]) + "\n"
    acc.violation(fp, f"{ann} policy={pol} input={xexpr} [{form}]: {msg}", script)


def _ann_shape(ann):
    return ann.replace("RC(str, regex='[a-z]+')", "lower")


CONTAINER_SPELLINGS = {
    "list": lambda c: "[" + ", ".join(c) + "]",
    "tuple": lambda c: "(" + ", ".join(c) + ("," if len(c) == 1 else "") + ")",
    "set": lambda c: ("{" + ", ".join(c) + "}") if c else "set()",
}


def _build_result(ctor, elems):
    base = {"List": list, "Set": set, "FrozenSet": frozenset, "TupleVar": tuple, "Deque": __import__("collections").deque}[ctor]
    return base(elems)


def _seq(acc, ann, meta, maxlen, cache, tier):
    ctor, leaf = meta
    lexpr, values = LEAVES[leaf]
    t = eval(f"T({ann})", _NS)
    is_set = ctor in ("Set", "FrozenSet")
    for pol in POLICIES:
        for extra_pol in ("throw", "exclude"):
            if extra_pol == "exclude" and pol == "throw":
                continue
            o = opts(items=pol, keys=extra_pol, values=extra_pol)
            o_strict = opts()
            for combo in seq_inputs(values, maxlen):
                for sp_name, spell in CONTAINER_SPELLINGS.items():
                    if sp_name != "list" and len(combo) > 2:
                        continue
                    if sp_name == "set":
                        # a set input: only hashable, pairwise distinct elements (the set would merge / reorder them)
                        try:
                            if len({ev(v) for v in combo}) != len(combo) or len(combo) > 1 and not is_set:
                                continue
                        except TypeError:
                            continue
                    xexpr = spell(combo)
                    res = [alone(lexpr, v, o, cache) for v in combo]
                    offending = [i for i, r in enumerate(res) if not r[0]]
                    acc.states += 1
                    acc.transitions += 1 + len(combo)
                    st, y = parse(t, ev(xexpr), o)
                    acc.evaluations += 1
                    acc.outcomes[f"{pol}:{st}"] += 1
                    if offending:
                        acc.nontrivial_add((ann, pol, xexpr))
                    tag = f"items={pol}" + (",keys/values=exclude" if extra_pol == "exclude" else "")
                    if st == "other":
                        _viol(acc, "exception-" + type(y).__name__, ann, tag, xexpr, f"raised {type(y).__name__}: {short(y, 80)}")
                        continue
                    if pol == "throw":
                        if (st == "err") != bool(offending):
                            _viol(acc, "throw-verdict", ann, tag, xexpr, f"{'rejected' if st == 'err' else 'accepted'} although "
                                                                         f"{len(offending)} elements offend")
                            continue
                        want = [r[1] for r in res]
                    elif pol == "exclude":
                        want = [r[1] for r in res if r[0]]
                    else:
                        want = [r[1] if r[0] else ev(v) for r, v in zip(res, combo)]
                    if st == "err":
                        if pol != "throw":
                            _viol(acc, "policy-raises", ann, tag, xexpr, f"raised {short(y, 100)} although the policy is {pol}")
                        continue
                    try:
                        expected = _build_result(ctor, want)
                    except TypeError:
                        continue        # an unhashable preserved element in a set: not constructible, not judged
                    if canon(y) != canon(expected):
                        _viol(acc, f"{pol}-result", ann, tag, xexpr, f"returned {short(y, 80)}, expected {short(expected, 80)} "
                                                                     f"(offending positions {offending})")
                        continue
                    if pol == "exclude" and sp_name == "list":
                        # metamorphic: equals strict parsing of the input minus the offending elements
                        filtered = "[" + ", ".join(v for i, v in enumerate(combo) if i not in offending) + "]"
                        st2, y2 = parse(t, ev(filtered), o_strict)
                        acc.transitions += 1
                        if st2 != "ok" or canon(y2) != canon(y):
                            _viol(acc, "exclude-vs-strict-of-filtered", ann, tag, xexpr,
                                  f"exclude gives {short(y, 60)} but strict parsing of {filtered} gives {short(y2, 60)}")
                    if acc.states % 701 == 0:
                        acc.sample(dict(type=ann, policy=tag, input=xexpr, result=short(y, 80), offending=offending))


def _map(acc, ann, meta, maxlen, cache, tier):
    kname, vname = meta
    kexpr, kvals = KEYS[kname]
    vexpr, vvals = LEAVES[vname]
    t = eval(f"T({ann})", _NS)
    items_1 = [((k, v),) for k in kvals for v in vvals]
    items_2 = [((k1, v1), (k2, v2)) for k1, k2 in itertools.combinations(kvals, 2) for v1 in vvals for v2 in vvals]
    inputs = [()] + items_1 + (items_2 if True else [])
    for kp, vp, ip in itertools.product(POLICIES, POLICIES, POLICIES):
        if ip != "throw" and tier != "thorough" and (kp, vp) not in (("exclude", "exclude"), ("throw", "throw"), ("preserve", "exclude")):
            continue
        o = opts(items=ip, keys=kp, values=vp)
        for items in inputs:
            xexpr = "{" + ", ".join(f"{k}: {v}" for k, v in items) + "}"
            acc.states += 1
            acc.transitions += 1 + 2 * len(items)
            st, y = parse(t, ev(xexpr), o)
            acc.evaluations += 1
            tag = f"keys={kp},values={vp},items={ip}"
            acc.outcomes[f"map:{st}"] += 1
            must_err = False
            want = {}
            undecided = False
            for k, v in items:
                kr = alone(kexpr, k, o, cache)
                vr = alone(vexpr, v, o, cache)
                if not kr[0] and kp == "throw":
                    must_err = True
                    continue
                if not kr[0] and kp == "exclude":
                    continue
                key = kr[1] if kr[0] else ev(k)
                if not vr[0] and vp == "throw":
                    must_err = True
                    continue
                if not vr[0] and vp == "exclude":
                    continue
                val = vr[1] if vr[0] else ev(v)
                if key in want:
                    undecided = True      # two input keys collapse into one: which value wins is not specified
                want[key] = val
            if any(not alone(kexpr, k, o, cache)[0] or not alone(vexpr, v, o, cache)[0] for k, v in items):
                acc.nontrivial_add((ann, tag, xexpr))
            if st == "other":
                _viol(acc, "exception-" + type(y).__name__, ann, tag, xexpr, f"raised {type(y).__name__}: {short(y, 80)}")
                continue
            if (st == "err") != must_err:
                _viol(acc, "map-verdict", ann, tag, xexpr, f"{'rejected' if st == 'err' else 'accepted ' + short(y, 60)} but the "
                                                           f"model {'requires an error' if must_err else 'accepts'}")
                continue
            if st == "ok" and not undecided and canon(y) != canon(want):
                _viol(acc, "map-result", ann, tag, xexpr, f"returned {short(y, 80)}, expected {short(want, 80)}")
            if acc.states % 701 == 0:
                acc.sample(dict(type=ann, policy=tag, input=xexpr, result=short(y, 80)))


def _nested_seq(acc, ann, meta, maxlen, cache):
    (leaf,) = meta
    lexpr, values = LEAVES[leaf]
    inner = f"List[{lexpr}]"
    t = eval(f"T({ann})", _NS)
    inner_inputs = ["[" + ", ".join(c) + "]" for c in seq_inputs(values, 2)] + ["object()", "5"]
    for pol in POLICIES:
        o = opts(items=pol)
        for combo in seq_inputs(inner_inputs[::2] + inner_inputs[1::7], 2):
            xexpr = "[" + ", ".join(combo) + "]"
            res = [alone(inner, v, o, cache) for v in combo]
            offending = [i for i, r in enumerate(res) if not r[0]]
            acc.states += 1
            acc.transitions += 1 + len(combo)
            st, y = parse(t, ev(xexpr), o)
            acc.evaluations += 1
            acc.outcomes[f"nested:{st}"] += 1
            if offending or any(("'x'" in v or "-1" in v) for v in combo):
                acc.nontrivial_add((ann, pol, xexpr))
            if st == "other":
                _viol(acc, "exception-" + type(y).__name__, ann, pol, xexpr, f"raised {type(y).__name__}: {short(y, 80)}")
                continue
            if pol == "throw":
                if (st == "err") != bool(offending):
                    _viol(acc, "throw-verdict", ann, pol, xexpr, "verdict differs from the per-element judgement")
                    continue
                want = [r[1] for r in res]
            elif pol == "exclude":
                want = [r[1] for r in res if r[0]]
            else:
                want = [r[1] if r[0] else ev(v) for r, v in zip(res, combo)]
            if st == "err":
                if pol != "throw":
                    _viol(acc, "policy-raises", ann, pol, xexpr, f"raised {short(y, 100)} although the policy is {pol}")
                continue
            if canon(y) != canon(want):
                _viol(acc, f"{pol}-result", ann, pol, xexpr, f"returned {short(y, 80)}, expected {short(want, 80)}")


def _nested_map(acc, ann, meta, maxlen, cache):
    (leaf,) = meta
    lexpr, values = LEAVES[leaf]
    inner = f"List[{lexpr}]"
    t = eval(f"T({ann})", _NS)
    inner_inputs = ["[" + ", ".join(c) + "]" for c in seq_inputs(values, 2)] + ["object()"]
    for ip, vp in itertools.product(POLICIES, POLICIES):
        o = opts(items=ip, values=vp)
        for vcombo in seq_inputs(inner_inputs[::3], 2):
            items = list(zip(["'k'", "'m'"], vcombo))
            xexpr = "{" + ", ".join(f"{k}: {v}" for k, v in items) + "}"
            acc.states += 1
            acc.transitions += 1 + len(items)
            st, y = parse(t, ev(xexpr), o)
            acc.evaluations += 1
            acc.outcomes[f"nested-map:{st}"] += 1
            must_err = False
            want = {}
            for k, v in items:
                r = alone(inner, v, o, cache)
                if not r[0]:
                    if vp == "throw":
                        must_err = True
                    elif vp == "preserve":
                        want[ev(k)] = ev(v)
                    continue
                want[ev(k)] = r[1]
            tag = f"items={ip},values={vp}"
            acc.nontrivial_add((ann, tag, xexpr))
            if st == "other":
                _viol(acc, "exception-" + type(y).__name__, ann, tag, xexpr, f"raised {type(y).__name__}: {short(y, 80)}")
                continue
            if (st == "err") != must_err:
                _viol(acc, "map-verdict", ann, tag, xexpr, f"{'rejected' if st == 'err' else 'accepted'} but the model "
                                                           f"{'requires an error' if must_err else 'accepts'}")
                continue
            if st == "ok" and canon(y) != canon(want):
                _viol(acc, "map-result", ann, tag, xexpr, f"returned {short(y, 80)}, expected {short(want, 80)}")


def _class(src):
    env = dict(_NS)
    env["__name__"] = "utmc.ns"
    exec(src, env)
    return env


def _fields(acc, ann, meta, cache):
    """data-class fields: per-field on_error and the class-level invalid_values policy"""
    (leaf,) = meta
    lexpr, values = LEAVES[leaf]
    o0 = opts()
    for base in ("Schema", "DataClass"):
        for fpol in (None, "exclude", "preserve", "throw"):
            for cpol in POLICIES:
              # how the class-level policy comes into force: declared with the fields, given at run time over another
              # declared one, or declared by a subclass that inherits the fields of a class with another one
              for route in ("class", "runtime", "subclass"):
                for variant in ("required", "optional", "default", "modereq", "modeopt", "dep"):
                    if route != "class" and variant not in ("required", "optional", "default"):
                        continue
                    if fpol == "exclude" and variant == "required":
                        # documented: on_error='exclude' cannot be used on a required field; the class-level policy can
                        pass
                    # modereq / modeopt: required only in mode 'w' and owning a default; the class is in mode 'w' / 'r'
                    fld = {"required": "Field({oe})", "optional": "Field(required=False{oe2})",
                           "default": "Field(default=7{oe2})", "modereq": "Field(required='w', default=7{oe2})",
                           "modeopt": "Field(required='w', default=7{oe2})",
                           # dep: the field depends on c, which is never given -- only a value that stays demands it
                           "dep": "Field(required=False, dependencies=['c']{oe2})"}[variant]
                    mode = {"modereq": "mode='w', ", "modeopt": "mode='r', "}.get(variant, "")
                    oe = f"on_error={fpol!r}" if fpol else ""
                    fld = fld.format(oe=oe, oe2=(", " + oe) if oe else "")
                    dpol = cpol if route == "class" else POLICIES[(POLICIES.index(cpol) + 1) % 3]
                    src = (f"class {'S' if route != 'subclass' else 'B0'}({base}):\n    __options__ = Options({mode}invalid_values={dpol!r})\n"
                           f"    a: {lexpr} = {fld}\n    b: int = 0\n" + ("    c: int = Field(required=False)\n" if variant == "dep" else ""))
                    if route == "subclass":
                        src += f"class S(B0):\n    __options__ = Options(invalid_values={cpol!r})\n"
                    try:
                        env = _class(src)
                    except Exception as e:
                        acc.extra["declarations_rejected_at_build"] += 1
                        continue
                    eff = fpol or cpol
                    for vx in values:
                        for bx in ("1", "'x'"):
                            acc.states += 1
                            acc.transitions += 2
                            ok, conv = alone(lexpr, vx, o0, cache)
                            try:
                                if route == "runtime":
                                    inst = env["S"].__from__(dict(a=ev(vx), b=ev(bx)), options=env["Options"](invalid_values=cpol))
                                else:
                                    inst = env["S"](a=ev(vx), b=ev(bx))
                                st = "ok"
                            except uexc.ParseError as e:
                                st, inst = "err", e
                            except Exception as e:
                                st, inst = "other", e
                            acc.evaluations += 1
                            acc.outcomes[f"fields:{st}"] += 1
                            tag = f"{variant},on_error={fpol},invalid_values={cpol}" + ("" if route == "class" else f"@{route}-over-{dpol}")
                            xexpr = f"S(a={vx}, b={bx})" if route != "runtime" else \
                                f"S.__from__(dict(a={vx}, b={bx}), options=Options(invalid_values={cpol!r}))"
                            b_bad = bx == "'x'"
                            if not ok or b_bad:
                                acc.nontrivial_add((src, xexpr))
                            if st == "other":
                                _viol(acc, "exception-" + type(inst).__name__, ann, tag, xexpr, f"raised {type(inst).__name__}: {short(inst, 80)}", base)
                                continue
                            # field b has a default: under a class-level exclude it falls back to it, under preserve it keeps 'x'
                            b_err = b_bad and cpol == "throw"
                            a_err = (not ok) and (eff == "throw" or (eff == "exclude" and variant in ("required", "modereq")))
                            if variant == "dep":
                                # a value that is kept (valid, or put back by preserve) demands the absent dependency;
                                # an excluded one does not
                                a_err = ok or eff in ("throw", "preserve")
                            if (st == "err") != (a_err or b_err):
                                _viol(acc, "field-verdict", ann, tag, xexpr, f"{'rejected' if st == 'err' else 'accepted'}: a "
                                      f"{'offends' if not ok else 'is valid'}, b {'offends' if b_bad else 'is valid'}", base)
                                continue
                            if st == "err":
                                continue
                            got = dict(inst) if isinstance(inst, dict) else {k: v for k, v in inst.__dict__.items() if not k.startswith("__")}
                            if ok:
                                want_a = ("v", conv)
                            elif eff == "preserve":
                                want_a = ("v", ev(vx))
                            else:
                                # = strict parsing of the input without the offending field: the declared default
                                want_a = ("v", 7) if variant in ("default", "modeopt") else ("absent",)
                            ga = got.get("a", "<absent>")
                            good = ((want_a[0] == "v" and "a" in got and canon(ga) == canon(want_a[1])) or
                                    (want_a[0] == "absent" and "a" not in got) or
                                    (want_a[0] == "absent_or" and ("a" not in got or canon(ga) == canon(want_a[1]))))
                            if not good:
                                _viol(acc, "field-result", ann, tag, xexpr, f"field a is {ga!r}, expected {want_a}", base)
                            want_b = 1 if not b_bad else ("x" if cpol == "preserve" else 0)
                            if canon(got.get("b", "<absent>")) != canon(want_b) and not (b_bad and cpol == "exclude" and "b" not in got):
                                _viol(acc, "other-field-touched", ann, tag, xexpr, f"field b is {got.get('b', '<absent>')!r}, expected {want_b!r}", base)


def _addition(acc, ann, meta, cache):
    (leaf,) = meta
    lexpr, values = LEAVES[leaf]
    o0 = opts()
    for base in ("Schema", "DataClass"):
        # rpol: the policy of the options the data is parsed with (__from__(..., options=...)); it is the one in effect
        for cpol, rpol in [(c, None) for c in POLICIES] + [(c, r) for c in POLICIES for r in POLICIES if r != c]:
            src = f"class S({base}):\n    __options__ = Options(addition=T({lexpr}), invalid_values={cpol!r})\n    a: int = 0\n"
            env = _class(src)
            for combo in seq_inputs(values, 2):
                items = list(zip(["x1", "x2"], combo))
                xexpr = "S(" + ", ".join(f"{k}={v}" for k, v in [("a", "1")] + items) + ")"
                if rpol:
                    xexpr = ("S.__from__(dict(" + ", ".join(f"{k}={v}" for k, v in [("a", "1")] + items) +
                             f"), options=Options(addition=True, invalid_values={rpol!r}))")
                acc.states += 1
                acc.transitions += 1 + len(items)
                try:
                    if rpol:
                        inst = env["S"].__from__(dict(a=1, **{k: ev(v) for k, v in items}),
                                                 options=env["Options"](addition=True, invalid_values=rpol))
                    else:
                        inst = env["S"](a=1, **{k: ev(v) for k, v in items})
                    st = "ok"
                except uexc.ParseError as e:
                    st, inst = "err", e
                except Exception as e:
                    st, inst = "other", e
                acc.evaluations += 1
                acc.outcomes[f"addition:{st}"] += 1
                res = {k: alone(lexpr, v, o0, cache) for k, v in items}
                bad = [k for k, r in res.items() if not r[0]]
                if bad:
                    acc.nontrivial_add((src, xexpr))
                tag = f"invalid_values={cpol}" + (f",runtime={rpol}" if rpol else "")
                declared, cpol = cpol, (rpol or cpol)
                if st == "other":
                    _viol(acc, "exception-" + type(inst).__name__, ann, tag, xexpr, f"raised {type(inst).__name__}", base)
                    cpol = declared
                    continue
                if (st == "err") != (bool(bad) and cpol == "throw"):
                    _viol(acc, "addition-verdict", ann, tag, xexpr, f"{'rejected' if st == 'err' else 'accepted'} with offending extra keys {bad}", base)
                    cpol = declared
                    continue
                if st == "err":
                    cpol = declared
                    continue
                got = dict(inst) if isinstance(inst, dict) else {k: v for k, v in inst.__dict__.items() if not k.startswith("__")}
                want = {"a": 1}
                for k, v in items:
                    if res[k][0]:
                        want[k] = res[k][1]
                    elif cpol == "preserve":
                        want[k] = ev(v)
                if canon(got) != canon(want):
                    _viol(acc, "addition-result", ann, tag, xexpr, f"instance holds {short(got, 80)}, expected {short(want, 80)}", base)
                cpol = declared


def _props(acc, ann, meta, cache):
    """a typed property: the getter's Field(on_error=...) or the policy in effect decides what happens to an invalid
    computed value; the field it is computed from is never touched"""
    (leaf,) = meta
    lexpr, values = LEAVES[leaf]
    o0 = opts()
    for gpol in (None, "exclude", "preserve", "throw"):
        for cpol in POLICIES:
            deco = f"    @Field(on_error={gpol!r})\n" if gpol else ""
            src = (f"class S(Schema):\n    __options__ = Options(invalid_values={cpol!r})\n    a: Any = None\n"
                   f"    @property\n{deco}    def p(self) -> {lexpr}:\n        return self.a\n")
            try:
                env = _class(src)
            except Exception:
                acc.extra["declarations_rejected_at_build"] += 1
                continue
            eff = gpol or cpol
            for vx in values:
                acc.states += 1
                acc.transitions += 2
                ok, conv = alone(lexpr, vx, o0, cache)
                try:
                    inst = env["S"](a=ev(vx))
                    st = "ok"
                except uexc.ParseError as e:
                    st, inst = "err", e
                except Exception as e:
                    st, inst = "other", e
                acc.evaluations += 1
                acc.outcomes[f"props:{st}"] += 1
                tag = f"getter-on_error={gpol},invalid_values={cpol}"
                xexpr = f"S(a={vx})"
                if not ok:
                    acc.nontrivial_add((src, xexpr))
                if st == "other":
                    _viol(acc, "exception-" + type(inst).__name__, ann, tag, xexpr, f"raised {type(inst).__name__}: {short(inst, 80)}", "Schema-property")
                    continue
                if (st == "err") != ((not ok) and eff == "throw"):
                    _viol(acc, "property-verdict", ann, tag, xexpr, f"{'rejected' if st == 'err' else 'accepted'}: the computed value "
                          f"{'offends' if not ok else 'is valid'} and the policy in effect is {eff}", "Schema-property")
                    continue
                if st == "err":
                    continue
                got = dict(inst)
                if canon(got.get("a", "<absent>")) != canon(ev(vx)):
                    _viol(acc, "other-field-touched", ann, tag, xexpr, f"field a is {got.get('a', '<absent>')!r}", "Schema-property")
                if ok:
                    good = "p" in got and canon(got["p"]) == canon(conv)
                elif eff == "preserve":
                    good = "p" in got and canon(got["p"]) == canon(ev(vx))
                else:
                    good = "p" not in got
                if not good:
                    _viol(acc, "property-result", ann, tag, xexpr, f"property p is {got.get('p', '<absent>')!r}", "Schema-property")


def _varargs(acc, ann, meta, maxlen, cache):
    (leaf,) = meta
    lexpr, values = LEAVES[leaf]
    o0 = opts()
    for pol in POLICIES:
        src = (f"@utype.parse(options=Options(invalid_items={pol!r}))\n"
               f"def W(first: int, *args: {lexpr}):\n    return first, args\n")
        env = _class(src)
        for combo in seq_inputs(values, maxlen):
            xexpr = "W(" + ", ".join(("0",) + combo) + ")"
            acc.states += 1
            acc.transitions += 1 + len(combo)
            try:
                r = env["W"](0, *[ev(v) for v in combo])
                st = "ok"
            except uexc.ParseError as e:
                st, r = "err", e
            except Exception as e:
                st, r = "other", e
            acc.evaluations += 1
            acc.outcomes[f"varargs:{st}"] += 1
            res = [alone(lexpr, v, o0, cache) for v in combo]
            offending = [i for i, x in enumerate(res) if not x[0]]
            if offending:
                acc.nontrivial_add((src, xexpr))
            if st == "other":
                _viol(acc, "exception-" + type(r).__name__, ann, pol, xexpr, f"raised {type(r).__name__}: {short(r, 60)}", "func")
                continue
            if (st == "err") != (bool(offending) and pol == "throw"):
                _viol(acc, "varargs-verdict", ann, pol, xexpr, f"{'rejected' if st == 'err' else 'accepted'} with offending positions {offending}", "func")
                continue
            if st == "err":
                continue
            if pol == "exclude":
                want = tuple(x[1] for x in res if x[0])
            else:
                want = tuple(x[1] if x[0] else ev(v) for x, v in zip(res, combo))
            if canon(r) != canon((0, want)):
                _viol(acc, f"varargs-{pol}-result", ann, pol, xexpr, f"body received {short(r, 80)}, expected {(0, want)!r}", "func")
