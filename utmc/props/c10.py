"""C10 — collecting errors changes reporting only, never the verdict or the value.

E1, differential + metamorphic: every (declaration, input) is parsed fail-fast and with collect_errors=True under
max_errors in {None, 1, 2, 3}.  The set of failing top-level items is computed independently by judging every item
alone (its field type applied alone to its value on the real code; absence and excess keys by the documented rules).
"""
import itertools

from ..core import Acc, bootstrap

bootstrap()
from ..universe import _NS, ev        # noqa: E402
from ..canon import short, canon     # noqa: E402

from utype.utils import exceptions as uexc   # noqa: E402

ID = "C10"
LEVEL = "model_checking"
RULE = ("product space: data classes (both bases) and decorated functions (keyword-only parameters, positional-only parameters, *args:int, **kwargs:int) "
        "with 1-3 fields over 11 field types (int, PositiveInt, List[int], Tuple[int,int], Optional[int], Int & PositiveInt, "
        "PositiveInt ^ Literal, Union[PositiveInt, date], nested data class, Dict[str,int], datetime) x addition in {None, False, int} x inputs "
        "assigning every field one of {absent, 4-5 candidate values incl. invalid and invalid-nested-element} and 0-2 "
        "excess keys x {fail-fast, collect with max_errors None/1/2/3}; state = one (declaration, input), transitions = "
        "5 parses + one black-box judgement per item. Non-trivial when at least one item fails")
ASSUMPTIONS = [
    "an item fails iff its field type applied alone to its value raises (black box on the real code, default options), "
    "or it is a missing required field, or an excess key under addition=False, or an excess value the addition type rejects",
    "items are compared as sets of top-level names (field name / alias-free parameter name / excess key / *args index)",
]

# name -> (annotation expr, candidate value exprs)
FTYPES = {
    "int": ("int", ["1", "'2'", "'x'", "None"]),
    "posint": ("PositiveInt", ["2", "'3'", "-1", "'x'"]),
    "list": ("List[int]", ["[1, 2]", "['3']", "[1, 'x']", "['x', 'y']", "object()"]),
    "tuple": ("Tuple[int, int]", ["(1, 2)", "[3, '4']", "(1, 'x')", "(1,)", "object()"]),
    "opt": ("Optional[int]", ["None", "5", "'x'", "[1, 2]"]),
    "and": ("Int & PositiveInt", ["4", "'5'", "-3", "'x'"]),
    "xor": ("PositiveInt ^ Literal['a', 'b']", ["3", "'a'", "'zz'", "-1"]),
    "union": ("Union[PositiveInt, date]", ["6", "'2020-01-02'", "'x'", "-2"]),
    "nested": ("N", ["{'v': 1}", "{'v': '2'}", "{'v': 'x'}", "{}", "5"]),
    "dict": ("Dict[str, int]", ["{'k': 1}", "{'k': 'x'}", "None", "5"]),
    # always convertible: the owner of the typed property p -> PositiveInt of base 'SchemaProp'
    "intok": ("int", ["1", "'2'", "-1", "'0'"]),
    "when": ("datetime", ["datetime(2020,1,2,3,4,5)", "'2020-01-02T03:04:05'", "None", "'x'"]),
}
# int fields with further Field arguments (only in the explicit declarations at the end of decls())
FTYPES["intdep"] = ("int", ["1", "'2'", "'x'"])          # may only be given together with field b
FTYPES["intalias"] = ("int", ["1", "'2'", "'x'"])        # also answers to the key a2
FKW = {"intdep": "dependencies=['b']", "intalias": "alias_from=['a2']"}
ORDER = [t for t in FTYPES if t not in ("intok", "intdep", "intalias")]
ADDITIONS = ["", "addition=False", "addition=int"]
# further options of the declaration (the black-box item judgement runs under the same ones)
XOPTS = ["", "ignore_constraints=True", "max_params=1", "data_first_search=True, ignore_alias_conflicts=True"]
EXCESS = [(), (("zz", "1"),), (("zz", "'x'"),), (("zz", "'x'"), ("yy", "2"))]
MAXERR = [None, 1, 2, 3]
NAMES = ["a", "b", "c"]


def decls(tier):
    out = []
    for base in ("Schema", "DataClass", "func"):
        for t in ORDER:
            for req in (True, False):
                out.append((base, ((t, req),)))
        pairs = list(itertools.product(ORDER, repeat=2))
        for i, (t1, t2) in enumerate(pairs):
            if tier != "thorough" and base != "Schema" and i % 3:
                continue
            out.append((base, ((t1, True), (t2, i % 2 == 0))))
        tri = ORDER[:5] if tier == "thorough" else ["int", "list", "xor", "nested"]
        for t1, t2, t3 in itertools.product(tri, repeat=3):
            if base == "DataClass" and tier != "thorough":
                continue
            out.append((base, ((t1, True), (t2, False), (t3, True))))
    out += [("varargs", ()), ("varargs", (("int", True),))]
    # positional-only parameters: given by position, a missing one is reported by the positional pass
    for t in ORDER:
        out.append(("posonly", ((t, True),)))
        out.append(("posonly", ((t, False),)))
    for i, (t1, t2) in enumerate(itertools.product(ORDER, repeat=2)):
        if tier == "thorough" or i % 3 == 0:
            out.append(("posonly", ((t1, True), (t2, i % 2 == 0))))
    for t1, t2, t3 in itertools.product(["int", "list", "nested"], repeat=3):
        out.append(("posonly", ((t1, True), (t2, True), (t3, False))))
    # a Schema whose typed property is computed from field a: an invalid property value is an error of the item 'p'
    out.append(("SchemaProp", (("intok", True),)))
    for t in ORDER:
        out.append(("SchemaProp", (("intok", True), (t, t in ("int", "list", "nested")))))
    # a field with a dependency / with a second spelling, next to a second (and third) field
    for base in ("Schema", "DataClass", "func"):
        for t2 in ("int", "list", "nested"):
            out.append((base, (("intdep", False), (t2, False))))
            out.append((base, (("intdep", False), (t2, False), ("int", True))))
            out.append((base, (("intalias", True), (t2, False))))
            out.append((base, (("intalias", False), (t2, True))))
    return out


def bounds(tier):
    return dict(declarations=len(decls(tier)), field_types=len(FTYPES), additions=ADDITIONS, max_errors=MAXERR,
                excess_key_patterns=len(EXCESS))


CHUNK = 6


def shards(tier):
    n = len(decls(tier))
    return [("decl", i, min(i + CHUNK, n)) for i in range(0, n, CHUNK)]


PRELUDE = "class N(Schema):\n    v: int\n"


def source(base, fields, add_expr):
    """-> source text defining make(options) -> parse callable taking a dict (and *args for varargs)"""
    lines = [PRELUDE]
    if base in ("Schema", "DataClass", "SchemaProp"):
        lines.append(f"class S({base.replace('Prop', '')}):")
        lines.append(f"    __options__ = Options({add_expr})" if add_expr else "    pass")
        for n, (t, req) in zip(NAMES, fields):
            ann = FTYPES[t][0]
            kw = ", ".join(p for p in ("" if req else "required=False", FKW.get(t, "")) if p)
            lines.append(f"    {n}: {ann}" + (f" = Field({kw})" if kw else ""))
        if base == "SchemaProp":
            lines += ["    @property", "    def p(self) -> PositiveInt:", "        return self.a"]
        lines.append("def make(opts):")
        lines.append("    return lambda data, args=(): S.__from__(data, options=opts)")
    else:
        params = []
        for n, (t, req) in zip(NAMES, fields):
            if t in FKW:
                params.append((f"{n}: {FTYPES[t][0]} = Param({'' if req else 'None, '}{FKW[t]})", req))
                continue
            params.append((f"{n}: {FTYPES[t][0]}" + ("" if req else " = None"), req))
        if base == "varargs":
            sig = ", ".join([p for p, _ in params] + ["*args: int", "**kwargs: int"])
        elif base == "posonly":
            sig = ", ".join([p for p, _ in params] + ["/", "**kwargs: int"])
        else:
            sig = ", ".join(["*"] + [p for p, _ in params] + ["**kwargs: int"]) if params else "**kwargs: int"
        lines.append("ENTERED = []")
        lines.append("def make(opts):")
        lines.append("    @utype.parse(options=opts)")
        lines.append(f"    def W({sig}):")
        lines.append("        ENTERED.append(1)")
        lines.append("        return dict(locals())")
        lines.append("    return lambda data, args=(): W(*args, **data)")
    return "\n".join(lines) + "\n"


def build(base, fields, add_expr):
    env = dict(_NS)
    env["__name__"] = "utmc.ns"
    src = source(base, fields, add_expr)
    exec(src, env)
    return env, src


def options(add_expr, collect, maxerr):
    parts = [p for p in (add_expr, "collect_errors=True" if collect else "", f"max_errors={maxerr}" if maxerr else "") if p]
    return eval("Options(" + ", ".join(parts) + ")", _NS)


_ALONE = {}


def fails_alone(env, t, vx, xopt=""):
    """black box: does the field type alone reject the value (under the declaration's further options)?"""
    key = (t, vx, xopt)
    r = _ALONE.get(key)
    if r is None:
        typ = eval(f"T({FTYPES[t][0]})" if t != "nested" else "N", env)
        try:
            env["type_transform"](ev(vx), typ, options=eval(f"Options({xopt})", _NS))
            r = False
        except uexc.ParseError:
            r = True
        except Exception:
            r = True
        _ALONE[key] = r
    return r


def int_fails(env, vx):
    key = ("<int>", vx, "")
    r = _ALONE.get(key)
    if r is None:
        try:
            env["type_transform"](ev(vx), int)
            r = False
        except Exception:
            r = True
        _ALONE[key] = r
    return r


def inputs(base, fields, tier):
    menus = []
    for t, req in fields:
        menus.append([None] + FTYPES[t][1])
    for combo in itertools.product(*menus):
        if base == "posonly" and any(a is None and b is not None for a, b in zip(combo, combo[1:])):
            continue        # a position cannot be skipped
        excess = EXCESS
        if fields and fields[0][0] == "intalias":
            # the second spelling of field a: alone, with the same value, with another value, with an invalid value
            excess = EXCESS[:2] + [(("a2", "1"),), (("a2", "5"),), (("a2", "'x'"),), (("a2", "5"), ("zz", "1"))]
        for ex in excess:
            if base == "varargs":
                for args in ((), ("1",), ("1", "'x'"), ("'x'", "2", "'w'"), ("'x'", "'w'", "3")):
                    yield combo, ex, args
            else:
                yield combo, ex, ()


def expected_failing(env, base, fields, add_expr, combo, ex, args, xopt=""):
    """set of failing top-level items, each judged alone"""
    bad = set()
    npos = 0
    if base == "varargs":
        # positional values fill the declared parameters first
        pos = list(args)
        combo = list(combo)
        for i in range(len(fields)):
            if pos:
                combo[i] = pos.pop(0)
                npos += 1
        for j, vx in enumerate(pos):
            if int_fails(env, vx):
                bad.add(f"*args:{j + npos}")
    for n, (t, req), vx in zip(NAMES, fields, combo):
        if vx is None:
            if req:
                bad.add(n)
            continue
        if base in ("func", "varargs") and not req and vx == "None":
            pass
        if fails_alone(env, t, vx, xopt):
            bad.add(n)
    is_func = base in ("func", "varargs", "posonly")
    if fields and fields[0][0] == "intdep" and combo[0] is not None and "a" not in bad and combo[1] is None:
        bad.add("<deps>")      # a is taken from the input, its dependency b is not given
    n_extra = len(ex)
    if fields and fields[0][0] == "intalias":
        second = [vx for k, vx in ex if k == "a2"]
        ex = tuple((k, vx) for k, vx in ex if k != "a2")
        if second:
            if combo[0] is None:
                bad.discard("a")
                if fails_alone(env, "int", second[0], xopt):
                    bad.add("a")
            elif "ignore_alias_conflicts" in xopt:
                # no conflict; which spelling is taken (and whether an invalid one that is not taken is reported, once
                # per spelling) is documented nowhere: decided only when both spellings are valid
                if fails_alone(env, "int", combo[0], xopt) or fails_alone(env, "int", second[0], xopt):
                    return None
            elif second[0] != combo[0]:
                if False:
                    pass
                else:
                    bad.add("a")      # two spellings with different values: a conflict on the field (besides its invalid value)
                    bad.add("<conflict>")
    for k, vx in ex:
        if is_func:
            # **kwargs: int converts every extra keyword
            if int_fails(env, vx):
                bad.add(f"**kwargs:{k}")
        elif add_expr.startswith("addition=False"):
            bad.add(k)
        elif add_expr.startswith("addition=int"):
            if int_fails(env, vx):
                bad.add(k)
    if "max_params=1" in xopt:
        # more input keys than allowed is one more failing item (it names no key)
        n_in = sum(1 for vx in combo if vx is not None) + n_extra
        if n_in > 1:
            bad.add("<max_params>")
    if base == "SchemaProp" and not bad and "ignore_constraints" not in xopt:
        # properties are computed from the parsed instance, so only when every input item is valid: the property
        # value is the converted a, and PositiveInt rejects it when it is not positive
        if int(ev(combo[0])) <= 0:
            bad.add("p")
    return bad


def run_shard(shard, tier):
    _, lo, hi = shard
    acc = Acc()
    for base, fields in decls(tier)[lo:hi]:
        adds = ADDITIONS if base in ("Schema", "DataClass", "SchemaProp") else [""]
        xopts = XOPTS if len(fields) <= 2 else [""]
        if base in ("varargs", "posonly"):
            xopts = [x for x in xopts if "max_params" not in x]
        for add_expr, xopt in itertools.product(adds, xopts):
            add_expr = ", ".join(p for p in (add_expr, xopt) if p)
            try:
                env, src = build(base, fields, add_expr)
                makers = {(c, m): env["make"](options(add_expr, c, m)) for c, m in
                          [(False, None)] + [(True, m) for m in MAXERR]}
            except Exception as e:
                acc.extra["declarations_rejected_at_build"] += 1
                if len(acc.notes) < 10:
                    acc.notes.append(f"rejected: {base} {fields} {add_expr}: {type(e).__name__}: {short(e, 80)}")
                continue
            for combo, ex, args in inputs(base, fields, tier):
                one_case(acc, env, src, makers, base, fields, add_expr, combo, ex, args, xopt)
        _ALONE.clear()
        try:
            from utype.parser import base as _pb
            _pb.__parsers__.clear()
        except Exception:
            pass
    return acc


def item_of(err):
    if type(err).__name__ == "ParamsExceedError":
        return "<max_params>"
    if type(err).__name__ == "DependenciesAbsenceError":
        return "<deps>"
    it = getattr(err, "item", None)
    return it


def one_case(acc, env, src, makers, base, fields, add_expr, combo, ex, args, xopt=""):
    data_items = [(n, vx) for n, vx in zip(NAMES, combo) if vx is not None]
    if base == "posonly":
        args, data_items = tuple(vx for vx in combo if vx is not None), []
    if base == "varargs":
        # parameters bound by position are not passed by keyword as well
        data_items = data_items[len(args):] if args else data_items
    data_expr = "{" + ", ".join(f"{k!r}: {v}" for k, v in data_items + list(ex)) + "}"
    args_expr = "(" + "".join(a + ", " for a in args) + ")"
    acc.states += 1
    want = expected_failing(env, base, fields, add_expr, combo if base != "varargs" else
                            tuple(None if (i < len(args)) else c for i, c in enumerate(combo)) if False else combo, ex, args, xopt)
    if want is None:
        acc.extra["winner_undocumented_under_ignore_alias_conflicts"] += 1
        return
    # two spellings with different values: the field may be named by the conflict and by the invalid value of a spelling
    conflict = "<conflict>" in want
    want.discard("<conflict>")
    runs = {}
    for key, fn in makers.items():
        if "ENTERED" in env:
            del env["ENTERED"][:]
        acc.transitions += 1
        try:
            r = fn(eval(data_expr, _NS), tuple(ev(a) for a in args))
            runs[key] = ("ok", r, bool(env.get("ENTERED")))
        except uexc.ParseError as e:
            runs[key] = ("err", e, bool(env.get("ENTERED")))
        except Exception as e:
            runs[key] = ("other", e, False)
    acc.evaluations += 1
    if want:
        acc.nontrivial_add((base, fields, add_expr, data_expr, args_expr))
    shape = f"{base}|{'+'.join(t + ('' if r else '?') for t, r in fields)}|{add_expr or '-'}"

    def viol(kind, msg):
        fp = f"C10|{shape}|{kind}"
        acc.violation(fp, f"{base} fields={[t for t, _ in fields]} Options({add_expr}) input={data_expr} args={args_expr}: {msg}",
                      _script(src, add_expr, data_expr, args_expr, sorted(want)),
                      dict(source=src, input=data_expr, args=args_expr, expected_failing=sorted(want)))

    ff = runs[(False, None)]
    acc.outcomes["failfast:" + ff[0]] += 1
    if ff[0] == "other":
        acc.extra["non_parse_error_in_failfast (C04's subject)"] += 1
        return
    # the black-box item judgement and the fail-fast verdict must agree (otherwise the judgement is unusable here)
    if (ff[0] == "err") != bool(want):
        viol("failfast-vs-items", f"fail-fast {'rejects' if ff[0] == 'err' else 'accepts'} but judged alone the failing items are {sorted(want)}")
        return
    for m in MAXERR:
        st, payload, entered = runs[(True, m)]
        acc.outcomes[f"collect:{st}"] += 1
        tag = f"max_errors={m}"
        if st == "other":
            viol(f"collect-exception-{type(payload).__name__}", f"[{tag}] raised {type(payload).__name__}: {short(payload, 80)}")
            return
        if st != ff[0]:
            viol(f"verdict-{'accepts' if st == 'ok' else 'rejects'}-under-collect",
                 f"[{tag}] fail-fast {'accepts' if ff[0] == 'ok' else 'rejects'} but collecting {'accepts' if st == 'ok' else 'rejects'} "
                 f"({short(payload, 100)})")
            return
        if st == "ok":
            if canon(payload) != canon(ff[1]):
                viol("value-differs", f"[{tag}] fail-fast gives {short(ff[1], 80)} but collecting gives {short(payload, 80)}")
                return
            continue
        if entered:
            viol("body-entered", f"[{tag}] the call failed but the function body had been entered")
            return
        if not isinstance(payload, uexc.CollectedParseError):
            viol("not-collected-error", f"[{tag}] raised {type(payload).__name__} instead of one CollectedParseError")
            return
        got = [item_of(e) for e in payload.errors]
        gset = set(got)
        pairs = [(item_of(e), type(e).__name__) for e in payload.errors]
        if len(pairs) != len(set(pairs)) or (len(got) != len(gset) and not conflict):
            viol("duplicate-item", f"[{tag}] item reported twice: {got}")
            return
        extra = gset - want
        if extra:
            viol("valid-item-reported", f"[{tag}] reported {sorted(map(str, extra))} which do not fail on their own (failing: {sorted(want)})")
            return
        cap = len(want) if m is None else min(m, len(want))
        if conflict and m is not None:
            continue        # the cap counts errors, and this field may carry two
        if len(gset) != cap:
            viol("count-" + ("over-cap" if len(gset) > cap else "missing-items"),
                 f"[{tag}] reported {sorted(map(str, gset))}, expected {cap} of the failing items {sorted(want)}")
            return
    if acc.states % 1501 == 0:
        acc.sample(dict(decl=shape, input=data_expr, args=args_expr, failing_items=sorted(want), failfast=ff[0]))


def _script(src, add_expr, data_expr, args_expr, want):
    return "\n".join([
        "import sys", "sys.path.insert(0, '/verif')", "from utmc.ns import *", src,
        f"want = {want!r}", "bad = False",
        "def run(o):",
        f"    try: return ('ok', make(o)({data_expr}, {args_expr}))",
        "    except exc.ParseError as e: return ('err', e)",
        f"ff = run(Options({add_expr}))", "print('fail-fast:', ff[0], repr(ff[1])[:200])",
        "for m in (None, 1, 2, 3):",
        f"    r = run(Options({add_expr + ', ' if add_expr else ''}collect_errors=True, **({{'max_errors': m}} if m else {{}})))",
        "    items = [getattr(e, 'item', None) for e in getattr(r[1], 'errors', [])] if r[0] == 'err' else None",
        "    print('collect max_errors=%s:' % m, r[0], items if items is not None else repr(r[1])[:120])",
        "    if r[0] != ff[0]: bad = True",
        "    if r[0] == 'err':",
        "        cap = len(want) if m is None else min(m, len(want))",
        "        if set(items) - set(want) or len(set(items)) != cap or len(items) != len(set(items)): bad = True",
        "print('failing items judged alone:', want)", "sys.exit(1 if bad else 0)"]) + "\n"
