"""C08 — decorated functions get Python's binding with conforming arguments and result.

(a) E1: every signature over the parameter kinds (positional-only, positional-or-keyword, keyword-only, *args,
    **kwargs) x variants (required, default, Param alias, Param default, private) is generated as source text,
    decorated, and called with every split of positional values and every subset of keyword names; the oracle is
    Python's own inspect.signature(reference).bind on an undecorated reference function.
(b) E2: recording generator bodies (sync / async, lazy / eager) are driven by every consumer script up to a length
    bound and compared step by step with the undecorated body whose values are converted by int.
"""
import inspect
import itertools

from ..core import Acc, bootstrap

bootstrap()
from ..universe import _NS           # noqa: E402
from ..canon import short, canon     # noqa: E402

from utype.utils import exceptions as uexc   # noqa: E402

ID = "C08"
LEVEL = "model_checking"
RULE = ("(a) product space: signatures of <= 3 (quick) / 4 (thorough) parameters over {positional-only, "
        "positional-or-keyword, keyword-only} x {required, default, Param(alias_from), Param(default, alias_from), "
        "private} (+ *args:int, **kwargs:int) in 5 contexts (function, instance / class / static method, class "
        "decorator) x calls = every positional count 0..n+1 x every subset of keyword names (parameter names, aliases, "
        "private names, one unknown) x value patterns (exact ints, convertible strings, one invalid slot); (b) generator "
        "scripts: 4 wrapper kinds x 3 bodies x every consumer script over {next, send('5'), send(7), send('x'), "
        "send(None)} up to length 4 (quick) / 5. A case is non-trivial when Python binds the call")
ASSUMPTIONS = [
    "the oracle is inspect.signature(reference).bind + apply_defaults on an undecorated reference function whose "
    "defaults are the semantic ones (Param(7) -> 7, Param() -> required), after mapping alias names to parameter "
    "names and dropping private names passed by keyword (guide/func.md, 'Private parameters')",
    "calls Python would not bind (and calls naming one parameter through two spellings) are executed but not judged",
    "coroutines and async generators are stepped by hand (send(None)), no event loop, no real time",
    "a bare (unannotated, default-less) first parameter of a function declared in a class body is taken for `self` when the "
    "parser cannot see a staticmethod object (@staticmethod placed above @utype.parse): not judged",
]

# ------------------------------------------------------------------------------------------------ signatures

VARIANTS = {
    # tag: (utype default expr | None, reference default expr | None, alias suffix | None, private?)
    "req": (None, None, None, False),
    "def": ("7", "7", None, False),
    "alias": ("Param(alias_from=['{n}_al'])", None, "_al", False),
    "adef": ("Param(7, alias_from=['{n}_al'])", "7", "_al", False),
    "oalias": ("Param(alias='{n}_out')", None, "_out", False),
    "oadef": ("Param(7, alias='{n}_out')", "7", "_out", False),
    "priv": ("5", "5", None, True),
    # no annotation, no default: the value is passed through as it is
    "bare": (None, None, None, False),
    # depends on the first parameter (p0): may only be given when p0 is given -- by position or by name alike
    "dep0": ("Param(7, dependencies=['p0'])", "7", None, False),
    # takes no input: whatever is given for it (by position or by name) is dropped, the default is used
    "noin": ("Param(7, no_input=True)", "7", None, False),
}
KIND_VARIANTS = {"po": ["req", "def", "priv"], "pk": ["req", "def", "alias", "adef", "oalias", "oadef", "priv", "bare"],
                 "ko": ["req", "def", "alias", "adef", "oalias", "priv"]}


class Sig:
    def __init__(self, params, var_pos, var_kw):
        self.params = params          # [(kind, variant)]
        self.var_pos = var_pos
        self.var_kw = var_kw
        self.names = []
        for i, (k, v) in enumerate(params):
            self.names.append(("_p%d" if VARIANTS[v][3] else "p%d") % i)

    def key(self):
        return (tuple(self.params), self.var_pos, self.var_kw)

    def text(self, ref=False, first=None):
        parts = [first] if first else []
        last_kind = None
        for (k, v), n in zip(self.params, self.names):
            if last_kind == "po" and k != "po":
                parts.append("/")
            if k == "ko" and last_kind != "ko":
                if self.var_pos:
                    parts.append("*args" if ref else "*args: int")
                else:
                    parts.append("*")
            d = VARIANTS[v][1 if ref else 0]
            ann = "" if (ref or v == "bare") else ": int"
            parts.append(f"{n}{ann}" + (f" = {d.format(n=n)}" if d is not None else ""))
            last_kind = k
        if last_kind == "po":
            parts.append("/")
        if self.var_pos and not any(k == "ko" for k, _ in self.params):
            parts.append("*args" if ref else "*args: int")
        if self.var_kw:
            parts.append("**kwargs" if ref else "**kwargs: int")
        return ", ".join(parts)

    def body(self):
        items = [f"{n!r}: {n}" for n in self.names]
        if self.var_pos:
            items.append("'*': args")
        if self.var_kw:
            items.append("'**': kwargs")
        return "{" + ", ".join(items) + "}"

    def describe(self):
        return f"def f({self.text()})"


def signatures(tier):
    nmax = 4 if tier == "thorough" else 3
    out = []
    opts = [(k, v) for k in ("po", "pk", "ko") for v in KIND_VARIANTS[k]]
    for n in range(0, nmax + 1):
        for combo in itertools.product(opts, repeat=n):
            kinds = [k for k, _ in combo]
            if kinds != sorted(kinds, key=("po", "pk", "ko").index):
                continue
            # required parameters that can be passed by position must not follow optional ones
            seen_opt = False
            ok = True
            for k, v in combo:
                if k == "ko":
                    continue
                required = VARIANTS[v][1] is None
                if required and seen_opt:
                    ok = False
                if not required:
                    seen_opt = True
            if not ok:
                continue
            if n == nmax and tier != "thorough" and len({v for _, v in combo}) < 2:
                pass
            for vp in (False, True):
                for vk in (False, True):
                    if n >= 3 and tier != "thorough" and (vp != vk):
                        continue
                    if n == 4 and (vp or vk) and len(set(kinds)) < 2:
                        continue
                    out.append(Sig(list(combo), vp, vk))
    # parameters with a dependency on the first one (explicit signatures, not part of the product above)
    for first in (("po", "req"), ("pk", "req"), ("pk", "def"), ("pk", "alias")):
        for rest in ([("pk", "dep0")], [("ko", "dep0")], [("pk", "def"), ("ko", "dep0")], [("pk", "dep0"), ("ko", "def")]):
            if first[0] == "pk" and first[1] == "req" and rest[0] == ("pk", "def") and False:
                continue
            for vk in (False, True):
                out.append(Sig([first] + rest, False, vk))
    for params in ([("pk", "noin")], [("pk", "noin"), ("pk", "def")], [("pk", "req"), ("pk", "noin"), ("pk", "def")],
                   [("po", "noin"), ("pk", "def")], [("po", "req"), ("po", "noin"), ("pk", "def")], [("pk", "def"), ("ko", "noin")]):
        for vk in (False, True):
            out.append(Sig(params, False, vk))
    return out


CONTEXTS = ["function", "method", "classmethod", "staticmethod", "classdeco", "parse-above-static"]
# for signatures with **kwargs: int -- the declared option addition=True does not displace the annotation of **kwargs
ADDITION_CONTEXTS = ["function-addition", "classdeco-addition"]
# error collection does not change the contract: a failing parameter keeps the body from running
COLLECT_CONTEXTS = ["function-collect"]


def build(sig: Sig, context):
    """-> (callable decorated, callable reference, source)"""
    env = dict(_NS)
    env["__name__"] = "utmc.ns"
    env["ENTERED"] = []
    body = f"ENTERED.append(1); return {sig.body()}"
    popt = ""
    if context.endswith("-addition"):
        context = context[:-len("-addition")]
        popt = "(options=Options(addition=True))"
    elif context.endswith("-collect"):
        context = context[:-len("-collect")]
        popt = "(options=Options(collect_errors=True))"
    if context == "function":
        src = (f"@utype.parse{popt}\ndef W({sig.text()}):\n    {body}\n"
               f"def REF({sig.text(ref=True)}):\n    return {sig.body()}\n")
        exec(src, env)
        return env["W"], env["REF"], src, env
    first = {"method": "self", "classmethod": "cls", "staticmethod": None, "classdeco": "self", "parse-above-static": None}[context]
    deco = {"method": "    @utype.parse\n", "classmethod": "    @classmethod\n    @utype.parse\n",
            "staticmethod": "    @staticmethod\n    @utype.parse\n", "classdeco": "",
            "parse-above-static": "    @utype.parse\n    @staticmethod\n"}[context]
    cdeco = f"@utype.parse{popt}\n" if context == "classdeco" else ""
    src = (f"{cdeco}class K:\n{deco}    def W({sig.text(first=first)}):\n        {body}\n"
           f"def REF({sig.text(ref=True)}):\n    return {sig.body()}\n")
    exec(src, env)
    k = env["K"]
    target = k.W if context in ("classmethod", "staticmethod", "parse-above-static") else k().W
    return target, env["REF"], src, env


def calls(sig: Sig, tier):
    """-> iterator of (args exprs, kwargs {name: expr})"""
    npos = sum(1 for k, _ in sig.params if k in ("po", "pk"))
    kwnames = []
    for (k, v), n in zip(sig.params, sig.names):
        if k in ("pk", "ko"):
            kwnames.append(n)
            if VARIANTS[v][2]:
                kwnames.append(n + VARIANTS[v][2])
        elif VARIANTS[v][3]:
            kwnames.append(n)     # a private positional-only name by keyword (ignored / TypeError)
    kwnames.append("zz")
    maxkw = 3 if (tier != "thorough" or len(sig.params) >= 4) else 4
    for k in range(0, npos + 2):
        for r in range(0, min(len(kwnames), maxkw) + 1):
            for sub in itertools.combinations(kwnames, r):
                slots = [("pos", i) for i in range(k)] + [("kw", n) for n in sub]
                patterns = [["exact"] * len(slots), ["conv"] * len(slots)]
                for s in range(len(slots)):
                    p = ["exact"] * len(slots)
                    p[s] = "bad"
                    patterns.append(p)
                    if tier == "thorough" and len(sig.params) <= 3:
                        p2 = ["conv"] * len(slots)
                        p2[s] = "bad"
                        patterns.append(p2)
                if not slots:
                    patterns = [[]]
                for pat in patterns:
                    args, kwargs = [], {}
                    for si, ((where, ident), how) in enumerate(zip(slots, pat)):
                        base = 10 + si
                        expr = {"exact": str(base), "conv": repr(str(base)), "bad": "'x'"}[how]
                        if where == "pos":
                            args.append(expr)
                        else:
                            kwargs[ident] = expr
                    yield args, kwargs


def expected(sig: Sig, ref, args, kwargs):
    """-> ('skip', reason) | ('error',) | ('value', dict)"""
    alias_of = {}
    private = set()
    for (k, v), n in zip(sig.params, sig.names):
        if VARIANTS[v][2]:
            alias_of[n + VARIANTS[v][2]] = n
        if VARIANTS[v][3]:
            private.add(n)
    mapped = {}
    for name, val in kwargs.items():
        if name in private:
            continue          # documented: a private parameter passed by name is ignored
        target = alias_of.get(name, name)
        if target in mapped:
            return ("skip", "two spellings of one parameter")
        mapped[target] = val
    try:
        ba = inspect.signature(ref).bind(*args, **mapped)
    except TypeError:
        return ("skip", "python does not bind")
    given = dict(ba.arguments)
    ba.apply_defaults()
    out = {}
    bad = False

    def conv(v):
        nonlocal bad
        try:
            return int(v)
        except (TypeError, ValueError):
            bad = True
            return None
    bare = {n for (k, v), n in zip(sig.params, sig.names) if v == "bare"}
    noin = {n for (k, v), n in zip(sig.params, sig.names) if v == "noin"}
    for n in sig.names:
        v = ba.arguments[n]
        if n in noin:
            v = 7             # what was given is not looked at
        elif n in given and n not in private and n not in bare:
            v = conv(v)
        out[n] = v
    if sig.var_pos:
        out["*"] = tuple(conv(v) for v in ba.arguments.get("args", ()))
    if sig.var_kw:
        out["**"] = {k: conv(v) for k, v in ba.arguments.get("kwargs", {}).items()}
    for (k, v), n in zip(sig.params, sig.names):
        if v == "dep0" and n in given and sig.names[0] not in given:
            return ("error",)      # a dependant given without its dependency
    if bad:
        return ("error",)
    return ("value", out)


# ------------------------------------------------------------------------------------------------ generators

GEN_BODIES = {
    "seq": ("    r0 = yield '1'\n    LOG.append(r0)\n    r1 = yield 2\n    LOG.append(r1)\n    r2 = yield '3'\n"
            "    LOG.append(r2)\n    return '9'\n", True),
    "echo": ("    r = yield 0\n    while r is not None:\n        LOG.append(r)\n        r = yield r\n    return 8\n", True),
    # falsy return values are converted like any other
    "zeroret": ("    r0 = yield '1'\n    LOG.append(r0)\n    return 0.0\n", True),
    "falseret": ("    r0 = yield 2\n    LOG.append(r0)\n    return False\n", True),
    "badyield": ("    r0 = yield '1'\n    LOG.append(r0)\n    r1 = yield 'x'\n    LOG.append(r1)\n    return 9\n", True),
}
GEN_KINDS = ["sync", "sync-eager", "async", "async-eager"]
STEPS = ["next", "send('5')", "send(7)", "send('x')", "send(None)"]


GEN_ANNS = ["full", "iter", "none"]     # Generator[int, int, int] / Iterator[int] / no return annotation


GEN_CTX = ["function", "static-in-parsed-class", "class-in-parsed-class", "parse-above-static"]


def gen_source(kind, body, ann="full", ctx="function"):
    """ctx: where the generator function is declared -- module level, or as a static / class method that reaches the
    parser still wrapped (class decorated with @utype.parse, or @utype.parse placed above @staticmethod)"""
    is_async = kind.startswith("async")
    eager = kind.endswith("eager")
    text, _ = GEN_BODIES[body]
    if is_async:
        # async generators cannot return a value
        import re
        text = re.sub(r"return [^\n]+", "return", text)
        a = {"full": " -> AsyncGenerator[int, int]", "iter": " -> typing.AsyncIterator[int]", "none": ""}[ann]
        head = "async def"
    else:
        a = {"full": " -> Generator[int, int, int]", "iter": " -> typing.Iterator[int]", "none": ""}[ann]
        head = "def"
    deco = "@utype.parse(eager=True)" if eager else "@utype.parse"
    ref = f"{head} REF():\n{text.replace('LOG.append', 'RLOG.append')}"
    if ctx == "function":
        return f"LOG = []\nRLOG = []\n{deco}\n{head} W(){a}:\n{text}" + ref
    ind = "\n".join("    " + ln if ln else ln for ln in text.split("\n"))
    if ctx == "static-in-parsed-class":
        cls = f"{deco}\nclass K:\n    @staticmethod\n    {head} W(){a}:\n{ind}"
    elif ctx == "class-in-parsed-class":
        cls = f"{deco}\nclass K:\n    @classmethod\n    {head} W(cls){a}:\n{ind}"
    else:
        cls = f"class K:\n    {deco}\n    @staticmethod\n    {head} W(){a}:\n{ind}"
    return f"LOG = []\nRLOG = []\n{cls}W = K.W\n" + ref


def run_coro(aw):
    try:
        aw.send(None)
    except StopIteration as e:
        return e.value
    raise RuntimeError("harness: coroutine suspended (awaited something)")


def drive(gen, script, is_async, convert):
    """-> list of step outcomes ('yield', v) | ('return', v) | ('error', kind); stops at the first non-yield.
    convert: False (the decorated generator) or the annotation variant of the reference: which channels are converted"""
    out = []
    conv_yield = convert in (True, "full", "iter")
    conv_send = convert in (True, "full")
    conv_ret = convert in (True, "full")
    for st in script:
        val = None
        if st.startswith("send("):
            val = eval(st[5:-1])
        if conv_send and val is not None:
            try:
                val = int(val)
            except (TypeError, ValueError):
                out.append(("error", "ParseError"))
                return out
        try:
            if is_async:
                item = run_coro(gen.asend(val)) if (st != "next") else run_coro(gen.__anext__())
            else:
                item = gen.send(val) if st != "next" else next(gen)
        except StopIteration as e:
            rv = e.value
            if conv_ret and rv is not None:
                rv = int(rv)
            out.append(("return", rv))
            return out
        except StopAsyncIteration:
            out.append(("return", None))
            return out
        except uexc.ParseError:
            out.append(("error", "ParseError"))
            return out
        except TypeError as e:
            # sending a non-None value into a just-started generator: Python's own protocol error
            out.append(("error", "TypeError:" + str(e)[:40]))
            return out
        if conv_yield:
            try:
                item = int(item)
            except (TypeError, ValueError):
                out.append(("error", "ParseError"))
                return out
        out.append(("yield", item))
    return out


# ------------------------------------------------------------------------------------------------ shards

def bounds(tier):
    return dict(signatures=len(signatures(tier)), contexts=CONTEXTS, generator_kinds=GEN_KINDS,
                generator_bodies=list(GEN_BODIES), script_length=5 if tier == "thorough" else 4)


CHUNK = 12


def shards(tier):
    n = len(signatures(tier))
    sh = [("sig", i, min(i + CHUNK, n)) for i in range(0, n, CHUNK)]
    sh += [("gen", k, b, a, "function") for k in GEN_KINDS for b in GEN_BODIES for a in GEN_ANNS]
    sh += [("gen", k, b, "full", c) for k in GEN_KINDS for b in ("seq", "zeroret") for c in GEN_CTX[1:]]
    sh += [("ret", k) for k in ("sync", "async", "async-eager")]
    sh += [("gencalls", k) for k in GEN_KINDS]
    return sh


def run_shard(shard, tier):
    acc = Acc()
    if shard[0] == "gen":
        _gen_shard(acc, shard[1], shard[2], tier, shard[3], shard[4])
        return acc
    if shard[0] == "ret":
        _ret_shard(acc, shard[1], tier)
        return acc
    if shard[0] == "gencalls":
        _gencalls_shard(acc, shard[1], tier)
        return acc
    _, lo, hi = shard
    sigs = signatures(tier)[lo:hi]
    for sig in sigs:
        n = len(sig.params)
        ctxs = CONTEXTS if (n <= 2 or (tier == "thorough" and n <= 3)) else ["function"]
        if sig.var_kw and n <= 2:
            ctxs = ctxs + ADDITION_CONTEXTS
        if n <= 2:
            ctxs = ctxs + COLLECT_CONTEXTS
        for ctx in ctxs:
            if ctx == "staticmethod" and sig.params and sig.params[0][1] == "bare":
                # @staticmethod above @utype.parse: the parser sees a plain function in a class body whose first
                # parameter is bare -- indistinguishable from an instance method, taken for `self` (documented guess)
                acc.extra["not_judged:bare first parameter under @staticmethod above @utype.parse"] += 1
                continue
            try:
                W, REF, src, env = build(sig, ctx)
            except Exception as e:
                acc.extra["declarations_rejected_at_build"] += 1
                if len(acc.notes) < 10:
                    acc.notes.append(f"rejected: {sig.describe()} [{ctx}]: {type(e).__name__}: {short(e, 80)}")
                continue
            entered = env["ENTERED"]
            for args, kwargs in calls(sig, tier):
                _one_call(acc, sig, ctx, W, REF, src, entered, args, kwargs)
        try:
            from utype.parser import base as _pb
            _pb.__parsers__.clear()
        except Exception:
            pass
    return acc


def _one_call(acc, sig, ctx, W, REF, src, entered, args, kwargs):
    a = [eval(x) for x in args]
    kw = {k: eval(v) for k, v in kwargs.items()}
    exp = expected(sig, REF, a, kw)
    acc.states += 1
    del entered[:]
    acc.transitions += 1
    try:
        got = ("value", W(*a, **kw))
    except uexc.ParseError as e:
        got = ("error", e)
    except Exception as e:
        got = ("other", e)
    acc.outcomes[f"{exp[0]}/{got[0]}"] += 1
    if exp[0] == "skip":
        acc.extra["not_judged:" + exp[1]] += 1
        return
    acc.evaluations += 1
    acc.nontrivial_add((sig.key(), ctx, tuple(args), tuple(sorted(kwargs.items()))))
    call = f"W({', '.join(args + [f'{k}={v}' for k, v in kwargs.items()])})"
    shape = _shape(sig, args, kwargs)

    def viol(kind, msg):
        fp = f"C08|bind|{ctx}|{_coarse(sig, args, kwargs)}|{kind}"
        acc.violation(fp, f"[{ctx}] def W({sig.text()}) called as {call}: {msg}",
                      _script(src, ctx, call, exp))
    if exp[0] == "error":
        if got[0] == "value":
            viol("invalid-accepted", f"an invalid value was accepted, body received {short(got[1], 120)}")
        elif got[0] == "other":
            viol("escape-" + type(got[1]).__name__, f"raised {type(got[1]).__name__}: {short(got[1], 80)} instead of ParseError")
        elif entered:
            viol("body-entered", "parsing failed but the body had been entered")
        return
    if got[0] != "value":
        viol(f"rejected-{type(got[1]).__name__}", f"Python binds this call to {exp[1]} but the decorated function raised "
                                                 f"{type(got[1]).__name__}: {short(got[1], 100)}")
        return
    if canon(got[1]) != canon(exp[1]):
        diff = [k for k in exp[1] if canon(got[1].get(k, "<missing>")) != canon(exp[1][k])]
        viol("binding-" + ",".join(_pname(sig, d) for d in diff),
             f"body received {short(got[1], 140)}, Python's binding with conversion gives {short(exp[1], 140)}")
    if acc.states % 4999 == 0:
        acc.sample(dict(signature=sig.describe(), context=ctx, call=call, expected=short(exp[1], 100)))


def _pname(sig, name):
    if name in ("*", "**"):
        return name
    i = sig.names.index(name)
    return f"{sig.params[i][0]}:{sig.params[i][1]}"


def _shape(sig, args, kwargs):
    p = "+".join(f"{k}:{v}" for k, v in sig.params) + ("+*" if sig.var_pos else "") + ("+**" if sig.var_kw else "")
    kws = []
    for k in kwargs:
        if k == "zz":
            kws.append("unknown")
        elif k.endswith("_al") or k.endswith("_out"):
            kws.append("alias")
        elif k.startswith("_"):
            kws.append("private")
        else:
            kws.append("name")
    return f"{p}|pos={len(args)}|kw={','.join(sorted(kws))}"


def _coarse(sig, args, kwargs):
    """coarse call shape for fingerprints: which parameter kinds / variants exist, how the call names things"""
    kinds = "".join(sorted({k for k, _ in sig.params}))
    variants = ",".join(sorted({v for _, v in sig.params}))
    kws = sorted({("unknown" if k == "zz" else "alias" if (k.endswith("_al") or k.endswith("_out")) else "private" if k.startswith("_") else "name")
                  for k in kwargs})
    npos = sum(1 for k, _ in sig.params if k in ("po", "pk"))
    extra = "extra-positional" if len(args) > npos else "positional" if args else "no-positional"
    return f"{kinds}|{variants}|{'*' if sig.var_pos else ''}{'**' if sig.var_kw else ''}|{extra}|kw={','.join(kws)}"


def _script(src, ctx, call, exp):
    target = {"function": "W", "method": "K().W", "classdeco": "K().W", "classmethod": "K.W", "staticmethod": "K.W",
              "parse-above-static": "K.W"}[ctx.replace("-addition", "").replace("-collect", "")]
    return "\n".join([
        "import sys", "sys.path.insert(0, '/verif')", "from utmc.ns import *", "from utmc.canon import canon",
        "ENTERED = []", src, f"expected = {exp!r}", "try:", f"    got = ('value', {call.replace('W(', target + '(', 1)})",
        "except exc.ParseError as e:", "    got = ('error', e)", "except Exception as e:", "    got = ('other', e)",
        "print('expected', expected); print('got', got)",
        "if expected[0] == 'error': bad = got[0] != 'error' or bool(ENTERED)",
        "else: bad = got[0] != 'value' or canon(got[1]) != canon(expected[1])",
        "sys.exit(1 if bad else 0)"]) + "\n"


def _gen_shard(acc, kind, body, tier, ann="full", ctx="function"):
    src = gen_source(kind, body, ann, ctx)
    is_async = kind.startswith("async")
    maxlen = 5 if tier == "thorough" else 4
    for n in range(1, maxlen + 1):
        for script in itertools.product(STEPS, repeat=n):
            env = dict(_NS)
            env["__name__"] = "utmc.ns"
            exec(src, env)
            acc.states += 1
            try:
                g = env["W"]()
                if kind == "async" and inspect.iscoroutine(g):
                    g = run_coro(g)
                got = drive(g, script, is_async, convert=False)
            except uexc.ParseError:
                got = [("error", "ParseError")]
            except Exception as e:
                got = [("error", "harness:" + type(e).__name__ + ":" + str(e)[:50])]
            if script[0].startswith("send(") and script[0] != "send(None)":
                # a non-None value sent into a generator that has not started: Python's own protocol error
                acc.extra["not_judged:non-None sent to a fresh generator"] += 1
                continue
            ref = drive(env["REF"](), script, is_async, convert=ann)
            acc.transitions += len(got)
            acc.evaluations += 1
            acc.outcomes[got[-1][0] if got else "empty"] += 1
            # received values: the body's log against the reference body's log (converted on the way in)
            log, rlog = env["LOG"], env["RLOG"]
            k = min(len(got), len(ref))
            same = canon(got[:k]) == canon(ref[:k]) and len(got) == len(ref)
            # a protocol TypeError (non-None sent to a fresh generator) is Python's, compare only that it is one
            if got and ref and got[-1][0] == "error" and ref[-1][0] == "error" and got[-1][1][:9] == ref[-1][1][:9] \
                    and canon(got[:-1]) == canon(ref[:-1]):
                same = True
            if not same:
                step = next((i for i in range(k) if canon(got[i]) != canon(ref[i])), k)
                fp = f"C08|gen|{kind}{'' if ctx == 'function' else '@' + ctx}|{ann}|{body}|step-{script[step] if step < len(script) else 'end'}|{_gk(got, step)}-vs-{_gk(ref, step)}"
                acc.violation(fp, f"{kind} generator body '{body}' driven by {list(script)}: observed {got}, the undecorated "
                                  f"body with int conversion gives {ref}", _gen_script(kind, body, script, ann, ctx))
            elif canon(log) != canon(rlog):
                fp = f"C08|gen|{kind}{'' if ctx == 'function' else '@' + ctx}|{ann}|{body}|received-values"
                acc.violation(fp, f"{kind} generator body '{body}' driven by {list(script)}: the body received {log}, the "
                                  f"reference body received {rlog}", _gen_script(kind, body, script, ann, ctx))
            acc.nontrivial_add((kind, body, script))
            if acc.states % 101 == 0:
                acc.sample(dict(generator=kind, body=body, script=list(script), observed=short(got, 100)))


def _gk(seq, i):
    return seq[i][0] if i < len(seq) else "none"


def _gen_script(kind, body, script, ann="full", ctx="function"):
    return "\n".join([
        "import sys", "sys.path.insert(0, '/verif')", "from utmc.ns import *", "from utmc.props import c08",
        "import inspect", f"src = c08.gen_source({kind!r}, {body!r}, {ann!r}, {ctx!r})", "print(src)", "env = {}", "exec('from utmc.ns import *', env)",
        "exec(src, env)", "g = env['W']()", f"is_async = {kind.startswith('async')!r}",
        f"if {kind == 'async'!r} and inspect.iscoroutine(g): g = c08.run_coro(g)",
        f"got = c08.drive(g, {list(script)!r}, is_async, convert=False)",
        f"ref = c08.drive(env['REF'](), {list(script)!r}, is_async, convert={ann!r})",
        "print('observed ', got); print('reference', ref); print('body log', env['LOG'], 'reference log', env['RLOG'])",
        "sys.exit(0 if (got == ref and env['LOG'] == env['RLOG']) else 1)"]) + "\n"


GENCALL_ARGS = ["1", "'2'", "'x'", "-1"]


def gencalls_source(kind):
    is_async = kind.startswith("async")
    deco = "@utype.parse(eager=True)" if kind.endswith("eager") else "@utype.parse"
    if is_async:
        return f"{deco}\nasync def W(a: int) -> AsyncGenerator[PositiveInt, None]:\n    yield a\n    yield a + 1\n"
    return f"{deco}\ndef W(a: int) -> Generator[PositiveInt, None, int]:\n    yield a\n    yield a + 1\n    return a\n"


def _consume(env, kind, ax):
    """one complete use of the generator function: call it and drain it"""
    is_async = kind.startswith("async")
    try:
        g = env["W"](eval(ax))
        if kind == "async" and inspect.iscoroutine(g):
            g = run_coro(g)
        out = []
        while True:
            try:
                out.append(run_coro(g.__anext__()) if is_async else next(g))
            except (StopIteration, StopAsyncIteration) as e:
                return ("done", out, getattr(e, "value", None))
    except uexc.ParseError:
        return ("ParseError",)
    except Exception as e:
        return ("other", type(e).__name__, str(e)[:60])


def _gencalls_shard(acc, kind, tier):
    """every sequence of calls (valid, convertible, invalid argument, invalid yield) on ONE decorated generator function:
    each call behaves as on a freshly decorated function"""
    src = gencalls_source(kind)
    fresh = {}
    for ax in GENCALL_ARGS:
        env = dict(_NS)
        env["__name__"] = "utmc.ns"
        exec(src, env)
        fresh[ax] = _consume(env, kind, ax)
    maxlen = 4 if tier == "thorough" else 3
    for n in range(2, maxlen + 1):
        for seq in itertools.product(GENCALL_ARGS, repeat=n):
            env = dict(_NS)
            env["__name__"] = "utmc.ns"
            exec(src, env)
            acc.states += 1
            for i, ax in enumerate(seq):
                got = _consume(env, kind, ax)
                acc.transitions += 1
                if canon(got) != canon(fresh[ax]):
                    fp = f"C08|gencalls|{kind}|after-{'-'.join('fail' if fresh[a][0] != 'done' else 'ok' for a in seq[:i])}"
                    acc.violation(fp, f"{kind} generator function W(a: int): call #{i + 1} of the sequence W({'), W('.join(seq)}) gives "
                                      f"{short(got, 80)}, on a freshly decorated function W({ax}) gives {short(fresh[ax], 80)}",
                                  "\n".join(["import sys", "sys.path.insert(0, '/verif')", "from utmc.ns import *", "from utmc.props import c08",
                                             "from utmc.canon import canon", f"src = c08.gencalls_source({kind!r}); print(src)",
                                             "def mk():", "    env = {}; exec('from utmc.ns import *', env); exec(src, env); return env",
                                             f"env = mk(); seq = {list(seq)!r}; bad = False", "for ax in seq:",
                                             f"    got = c08._consume(env, {kind!r}, ax); want = c08._consume(mk(), {kind!r}, ax)",
                                             "    print(ax, got, want); bad = bad or canon(got) != canon(want)",
                                             "sys.exit(1 if bad else 0)"]) + "\n")
                    break
            acc.evaluations += 1
            acc.nontrivial_add((kind, seq))
            acc.outcomes["sequence"] += 1
    acc.sample(dict(kind=kind, fresh_outcomes={a: short(v, 60) for a, v in fresh.items()}))


RET_VALUES = ["1", "'2'", "'x'", "None", "3.0", "[4]", "b'5'"]


def _ret_shard(acc, kind, tier):
    """argument conversion + return conversion for plain / coroutine functions: W(a) returns RESULT[0]"""
    is_async = kind.startswith("async")
    deco = "@utype.parse(eager=True)" if kind.endswith("eager") else "@utype.parse"
    src = (f"ENTERED = []\nRESULT = [None]\n{deco}\n{'async ' if is_async else ''}def W(a: int) -> int:\n"
           f"    ENTERED.append(a)\n    return RESULT[0]\n")
    env = dict(_NS)
    env["__name__"] = "utmc.ns"
    exec(src, env)

    def ideal(v):
        try:
            return ("value", env["type_transform"](v, int))
        except Exception:
            return ("error",)
    for ax in RET_VALUES:
        for rx in RET_VALUES:
            a, r = eval(ax), eval(rx)
            env["RESULT"][0] = r
            del env["ENTERED"][:]
            acc.states += 1
            acc.transitions += 1
            try:
                out = env["W"](a)
                if is_async:
                    out = run_coro(out)
                got = ("value", out)
            except uexc.ParseError:
                got = ("error",)
            except Exception as e:
                got = ("other", type(e).__name__, str(e)[:60])
            ea = ideal(a)
            if ea[0] == "error":
                exp = ("error",)
                must_enter = False
            else:
                must_enter = True
                exp = ideal(r)
            acc.evaluations += 1
            acc.outcomes[got[0]] += 1
            acc.nontrivial_add((kind, ax, rx))
            entered = list(env["ENTERED"])
            bad = None
            if canon(got) != canon(exp):
                bad = f"observed {got}, expected {exp}"
            elif must_enter and canon(entered) != canon([ea[1]]):
                bad = f"the body received {entered}, expected [{ea[1]!r}]"
            elif not must_enter and entered:
                bad = "the argument is invalid but the body was entered"
            if bad:
                fp = f"C08|ret|{kind}|arg={type(a).__name__}|ret={type(r).__name__}|{got[0]}-vs-{exp[0]}"
                acc.violation(fp, f"{kind} function W(a: int) -> int called with {ax}, body returns {rx}: {bad}",
                              "\n".join(["import sys", "sys.path.insert(0, '/verif')", "from utmc.ns import *",
                                         "from utmc.props import c08", src, f"RESULT[0] = {rx}", "try:",
                                         f"    out = W({ax})", f"    out = c08.run_coro(out) if {is_async!r} else out",
                                         "    print('value', out)", "except exc.ParseError as e:", "    print('ParseError', e)",
                                         f"print('expected', {exp!r}, 'entered', ENTERED)", "sys.exit(1)"]) + "\n")
