"""C01 — parsed results always conform to the declared type and constraints.

E1: every (declaration, call form, non-waiving options, input) is parsed by the real library; a returned
value must satisfy the type-directed predicate spec.conforms (which never calls utype).
"""
from ..core import Acc, bootstrap

bootstrap()
from .. import e1, spec as S, typegram as tg   # noqa: E402
from ..universe import all_atoms, ev  # noqa: E402
from ..canon import short  # noqa: E402
from .. import inputs as I  # noqa: E402

ID = "C01"
LEVEL = "model_checking"
RULE = ("product space: type grammar (plain leaves, constrained types via class statement and via annotation+Field "
        "constraints, shipped utype.types, Literal, generics to the nesting bound, logical combinations, data classes) "
        "x call forms (T(x), type_transform, Schema/DataClass field, __from__, function positional / keyword / *args "
        "/ **kwargs / return) x non-waiving option sets x (atom alphabet + type-directed containers); a case is "
        "non-trivial when the parse returned a value whose type differs from the input's or that is not the input object")
ASSUMPTIONS = [
    "trusted base: spec.conforms and refcons.ref_constraint (written from docs/en/references/rule.md, never call utype)",
    "exempt as the statement says: 'preserve' policies, ignore_constraints, unresolved_types='ignore', declared defaults",
    "lax constraints are not judged here (C03); contains/min/max_contains are judged in C02",
]

OPTSETS = [
    {},
    {"no_explicit_cast": True},
    {"no_data_loss": True},
    {"no_explicit_cast": True, "no_data_loss": True},
    {"collect_errors": True},
    {"invalid_items": "exclude", "invalid_keys": "exclude", "invalid_values": "exclude"},
    {"collect_errors": True, "invalid_items": "exclude", "invalid_keys": "exclude", "invalid_values": "exclude"},
    {"data_first_search": True},
    {"data_first_search": False, "collect_errors": True, "no_data_loss": True},
]
QUICK_OPTS = [0, 1, 2, 4, 5]


def spec_universe(tier):
    specs = tg.leaf_specs()
    specs += tg.constrained_specs()
    specs += tg.literal_specs()
    specs += tg.mixed_specs(routes=("cls", "ann") if tier == "thorough" else ("cls",))
    specs += tg.SHIPPED
    specs += tg.generic_specs(depth=2 if tier == "thorough" else 1,
                              elems=None if tier == "thorough" else tg.REP_ELEMS_Q)
    if tier == "thorough":
        specs += tg.logical_specs(arities=(2,))
        specs += tg.logical_specs(leaves=tg.LOGIC_LEAVES[:6], arities=(3,), with_not=False)
    else:
        specs += tg.logical_specs(leaves=tg.LOGIC_LEAVES[:9])
    specs += tg.dataclass_specs()
    return specs


def forms_for(spec, tier):
    k = spec[0]
    if k == "dc":
        return ["dccall", "dcfrom", "tt", "field"]
    utype_t = e1.is_utype_type(S.build(spec))
    f = ["tt"] + (["call"] if utype_t else [])
    if tier == "thorough":
        f += ["field", "dfield", "from", "param", "kwparam", "ret", "args", "kwargs"]
    else:
        f += ["field", "param"] if k in ("t", "g", "gc") else ["ret"] if k == "r" else []
        if k == "t":
            f += ["args", "kwargs"]
    return f


def bounds(tier):
    return dict(declarations=len(spec_universe(tier)), atoms=len(all_atoms()),
                option_sets=len(OPTSETS) if tier == "thorough" else len(QUICK_OPTS),
                container_len=3 if tier == "thorough" else 2,
                generic_nesting=2 if tier == "thorough" else 1)


CHUNK = 6


def shards(tier):
    n = len(spec_universe(tier))
    return [("specs", i, min(i + CHUNK, n)) for i in range(0, n, CHUNK)]


def waive_for(opts):
    return S.Waive(no_data_loss=bool(opts.get("no_data_loss")), addition=opts.get("addition"))


def run_shard(shard, tier):
    _, lo, hi = shard
    allspecs = spec_universe(tier)[lo:hi]
    acc = Acc()
    atoms = all_atoms()
    optidx = range(len(OPTSETS)) if tier == "thorough" else QUICK_OPTS
    for sp in allspecs:
        vals = atoms + I.directed_inputs(sp, k=3 if tier == "thorough" else 2)
        seen_v = set()
        vals = [v for v in vals if not (v in seen_v or seen_v.add(v))]
        for form in forms_for(sp, tier):
            for oi in optidx:
                opts = OPTSETS[oi]
                if form in ("call", "dccall") and opts:
                    continue
                if "data_first_search" in opts and form not in ("field", "dfield", "from", "dcfrom", "param", "kwparam", "kwargs"):
                    continue
                try:
                    fn, _, _ = e1.caller(sp, form, opts)
                except Exception as e:
                    acc.extra["declarations_rejected_at_build"] += 1
                    acc.notes.append(f"declaration not accepted: {S.type_expr(sp)} form={form}: {type(e).__name__}: {short(e, 80)}")
                    continue
                w = waive_for(opts)
                for vx in vals:
                    kind, payload = e1.run_case(sp, form, opts, vx)
                    acc.states += 1
                    acc.transitions += 1
                    acc.outcomes[kind] += 1
                    if kind != "value":
                        continue
                    acc.evaluations += 1
                    try:
                        results = e1.unwrap(form, payload)
                    except Exception as e:
                        raise RuntimeError(f"harness: unwrap failed for {S.type_expr(sp)} {form} {vx}: {e!r}")
                    xin = None
                    for r in results:
                        why = []
                        ok = S.conforms(sp, r, w, why)
                        if ok:
                            continue
                        cat = why[0].split(":")[0] if why else "?"
                        try:
                            xs = e1.value_shape(ev(vx))
                        except Exception:
                            xs = "?"
                        fp = f"C01|{S.shape(sp)}|{form}|{cat}|{xs}|{_optkey(opts)}"
                        acc.violation(
                            fp, f"{S.type_expr(sp)} form={form} opts={opts} input={vx} returned {short(r, 80)} "
                                f"({type(r).__name__}): {why[0] if why else 'does not conform'}",
                            e1.script(sp, form, opts, vx, [
                                "from utmc import spec as S, e1",
                                f"sp = {sp!r}",
                                f"w = S.Waive(no_data_loss={w.no_data_loss!r})",
                                f"bad = out[0] == 'value' and not all(S.conforms(sp, v, w) for v in e1.unwrap({form!r}, out[1]))",
                            ]),
                            dict(decl=S.type_expr(sp), form=form, options=opts, input=vx, result=short(r, 200),
                                 why=why[:1]))
                    if _nontrivial(vx, payload):
                        acc.nontrivial_add((sp, form, oi, vx))
                    if acc.states % 1499 == 0:
                        acc.sample(dict(decl=S.type_expr(sp), form=form, options=opts, input=vx, result=short(payload, 60)))
        e1.reset_callers()
    return acc


def _optkey(opts):
    return ",".join(sorted(k for k, v in opts.items() if v)) or "default"


def _nontrivial(vx, result):
    try:
        return type(ev(vx)) is not type(result)
    except Exception:
        return True
