"""C17 — forward references and declaration order do not change behaviour.

E2 over generated programs: every small system of mutually referencing data classes (and a function) is emitted as
source text for every way of spelling each reference, every definition order, global and function-local scope, and
executed in a fresh module; the classes are then used in every first-use order.  Oracle: an independent structural
model (nested mapping -> nested instances with int leaves), which is what the same system written with direct
references means.
"""
import itertools
import sys
import types

from ..core import Acc, bootstrap, call_guarded

bootstrap()
from ..universe import _NS        # noqa: E402
from ..canon import short, canon  # noqa: E402

from utype.utils import exceptions as uexc   # noqa: E402

ID = "C17"
LEVEL = "model_checking"
RULE = ("programs: 7 reference graphs (self, A->B, A<->B, A->B through two fields, A->B->C->A, A->B with a function over both, A->B with a subclass C(A)) "
        "x every spelling of each reference (direct, 'B', List['B'], Dict[str,'B'], Optional['B'], Union['B', None], "
        "'List[B]', any_of('B', None), postponed evaluation) x every definition order Python accepts x {module scope, "
        "function-local scope} x every first-use order x inputs (valid, convertible leaf, invalid leaf, missing nested "
        "required field) ; plus two modules declaring classes of the same names. State = one (program, first-use order, "
        "input); every state is non-trivial (a nested reference has to be resolved)")
ASSUMPTIONS = [
    "the reference model: class X has `v: int` plus its reference fields; parsing a mapping converts v with int(), "
    "parses each reference field with the model of its target (list / dict / optional wrappers as spelled) and fails "
    "iff a leaf is not an int literal or a required field is missing -- the meaning of the program written with direct "
    "references",
    "each program runs in a fresh module registered in sys.modules, with typing's caches reset before it (except in the "
    "two-module scenario, whose point is what survives from the first module)",
]

SPELLINGS = ["direct", "str", "list", "dict", "optional", "union-none", "str-generic", "logical", "future", "tuple2", "dict-list"]

# graphs: name -> (classes, edges [(src, field, dst)])
GRAPHS = {
    "self": (["A"], [("A", "nxt", "A")]),
    "a-b": (["A", "B"], [("A", "b", "B")]),
    "a-b-a": (["A", "B"], [("A", "b", "B"), ("B", "a", "A")]),
    "a-b-twice": (["A", "B"], [("A", "b1", "B"), ("A", "b2", "B")]),
    "cycle3": (["A", "B", "C"], [("A", "b", "B"), ("B", "c", "C"), ("C", "a", "A")]),
    "func": (["A", "B"], [("A", "b", "B")]),
    # C(A) inherits A's fields (and their still unresolved references): C may be the first class ever used
    "inherit": (["A", "B", "C"], [("A", "b", "B")]),
}


def annotation(spelling, target):
    """-> (annotation text, wrapper kind, default text)"""
    return {
        "direct": (f"Optional[{target}]", "opt", "None"),
        "str": (f"'{target}'", "plain", "None"),
        "list": (f"List['{target}']", "list", "Field(default_factory=list)"),
        "dict": (f"Dict[str, '{target}']", "dict", "Field(default_factory=dict)"),
        "optional": (f"Optional['{target}']", "opt", "None"),
        "union-none": (f"Union['{target}', None]", "opt", "None"),
        "str-generic": (f"'List[{target}]'", "list", "Field(default_factory=list)"),
        "logical": (f"any_of('{target}', None)", "opt", "None"),
        "future": (f"Optional[{target}]", "opt", "None"),
        # several nested generic / union arguments, each carrying the reference
        "tuple2": (f"Tuple[Optional['{target}'], List['{target}']]", "tuple2", "None"),
        "dict-list": (f"Dict[str, List['{target}']]", "dictlist", "Field(default_factory=dict)"),
    }[spelling]


class Program:
    def __init__(self, graph, spellings, order, local):
        self.graph = graph
        self.classes, self.edges = GRAPHS[graph]
        self.spellings = spellings
        self.order = order
        self.local = local
        self.future = "future" in spellings

    def key(self):
        return (self.graph, self.spellings, self.order, self.local)

    def wrappers(self):
        return {(s, f): annotation(sp, d)[1] for (s, f, d), sp in zip(self.edges, self.spellings)}

    def valid(self):
        """Python itself must accept the program: a direct reference needs its target defined earlier"""
        pos = {c: i for i, c in enumerate(self.order)}
        for (s, f, d), sp in zip(self.edges, self.spellings):
            if sp == "direct" and not self.future and pos[d] >= pos[s]:
                return False
        if self.graph == "inherit" and pos["C"] < pos["A"]:
            return False
        if self.future and any(sp not in ("future",) for sp in self.spellings):
            # with postponed evaluation every annotation of the module is a string: spell them all as 'future'
            return False
        return True

    def source(self):
        ind = "    " if self.local else ""
        lines = []
        if self.future:
            lines.append("from __future__ import annotations")
        lines.append("from utmc.ns import *")
        if self.local:
            lines.append("def make():")
        if self.graph == "func":
            lines += [ind + "@utype.parse", ind + "def F(x: 'A', y: List['B'] = None) -> 'B':",
                      ind + "    return dict(v=x.v + 100, extra=[len(y or [])])"]
        for c in self.order:
            if self.graph == "inherit" and c == "C":
                lines.append(ind + "class C(A):")
                lines.append(ind + "    extra: int = 0")
                continue
            lines.append(ind + f"class {c}(Schema):")
            lines.append(ind + "    v: int")
            if c == "B" and self.graph == "func":
                lines.append(ind + "    extra: List[int] = Field(default_factory=list)")
            for (s, f, d), sp in zip(self.edges, self.spellings):
                if s != c:
                    continue
                ann, _, default = annotation(sp, d)
                lines.append(ind + f"    {f}: {ann} = {default}")
        names = list(self.classes) + (["F"] if self.graph == "func" else [])
        if self.local:
            lines.append(ind + "return (" + ", ".join(names) + ",)")
            lines.append(", ".join(names) + ("," if len(names) == 1 else "") + " = make()")
        return "\n".join(lines) + "\n"


def programs(tier):
    out = []
    for g, (classes, edges) in GRAPHS.items():
        ne = len(edges)
        if ne <= 2:
            combos = list(itertools.product(SPELLINGS, repeat=ne))
        elif tier == "thorough":
            # every combination of spellings for the three edges as well
            combos = [c for c in itertools.product(SPELLINGS, repeat=ne) if "future" not in c or set(c) == {"future"}]
        else:
            combos = [(s,) * ne for s in SPELLINGS] + [("str", "list", "optional"), ("dict", "logical", "str"),
                                                       ("union-none", "str-generic", "list")]
        if tier != "thorough" and ne == 2:
            combos = [c for i, c in enumerate(combos) if c[0] == c[1] or i % 3 == 0]
        for sp in combos:
            for order in itertools.permutations(classes):
                for local in (False, True):
                    p = Program(g, tuple(sp), tuple(order), local)
                    if p.valid():
                        out.append(p)
    return out


# ------------------------------------------------------------------------------------------------ model

class Reject(Exception):
    pass


def model_parse(p: Program, cls, data, depth=0):
    if not isinstance(data, dict):
        raise Reject("not a mapping")
    if p.graph == "inherit" and cls == "C":
        out = model_parse(p, "A", data, depth)
        out["extra"] = int(data.get("extra", 0))
        return out
    out = {}
    if "v" not in data:
        raise Reject("v missing")
    try:
        out["v"] = int(data["v"]) if not isinstance(data["v"], (list, dict, type(None))) else (_ for _ in ()).throw(ValueError())
    except (TypeError, ValueError):
        raise Reject("bad leaf")
    if cls == "B" and p.graph == "func":
        out["extra"] = [int(x) for x in data.get("extra", [])]
    wr = p.wrappers()
    for (s, f, d) in p.edges:
        if s != cls:
            continue
        kind = wr[(s, f)]
        if f not in data:
            out[f] = [] if kind == "list" else {} if kind in ("dict", "dictlist") else None
            continue
        val = data[f]
        if kind in ("opt", "plain"):
            if val is None and kind == "opt":
                out[f] = None
            else:
                out[f] = model_parse(p, d, val, depth + 1)
        elif kind == "list":
            if not isinstance(val, list):
                raise Reject("not a list")
            out[f] = [model_parse(p, d, x, depth + 1) for x in val]
        elif kind == "dict":
            if not isinstance(val, dict):
                raise Reject("not a dict")
            out[f] = {k: model_parse(p, d, x, depth + 1) for k, x in val.items()}
        elif kind == "tuple2":
            if not isinstance(val, list) or len(val) != 2 or not isinstance(val[1], list):
                raise Reject("not a pair")
            out[f] = [None if val[0] is None else model_parse(p, d, val[0], depth + 1),
                      [model_parse(p, d, x, depth + 1) for x in val[1]]]
        elif kind == "dictlist":
            if not isinstance(val, dict) or not all(isinstance(x, list) for x in val.values()):
                raise Reject("not a dict of lists")
            out[f] = {k: [model_parse(p, d, x, depth + 1) for x in lst] for k, lst in val.items()}
    return out


def to_plain(v):
    if isinstance(v, dict):
        return {k: to_plain(x) for k, x in dict.items(v)}
    if isinstance(v, (list, tuple)):
        return [to_plain(x) for x in v]
    return v


def build_inputs(p: Program, cls, leaf, depth):
    """one nested input for class `cls`: follows every edge to the given depth, `leaf` is the deepest v"""
    if p.graph == "inherit" and cls == "C":
        cls = "A"
    data = {"v": depth if depth > 0 else leaf}
    if depth <= 0:
        return data
    wr = p.wrappers()
    for (s, f, d) in p.edges:
        if s != cls:
            continue
        child = build_inputs(p, d, leaf, depth - 1)
        kind = wr[(s, f)]
        data[f] = (child if kind in ("opt", "plain") else [child, {"v": 7}] if kind == "list" else {"k": child} if kind == "dict"
                   else [child, [{"v": 7}]] if kind == "tuple2" else {"k": [child, {"v": 7}]})
    return data


LEAVES = [1, "5", "x"]


def inputs_for(p, cls):
    out = []
    for depth in (0, 1, 2, 3):
        for leaf in LEAVES:
            out.append(build_inputs(p, cls, leaf, depth))
    # a nested mapping without its required field
    for (s, f, d) in p.edges:
        if s == cls or (p.graph == "inherit" and cls == "C" and s == "A"):
            kind = p.wrappers()[(s, f)]
            bad = {"w": 1}
            out.append({"v": 1, f: bad if kind in ("opt", "plain") else [bad] if kind == "list" else {"k": bad} if kind == "dict"
                        else [bad, []] if kind == "tuple2" else {"k": [bad]}})
    return out


# ------------------------------------------------------------------------------------------------ execution

_SEQ = [0]


def execute(p: Program, reset=True):
    import typing
    if reset:
        for f in typing._cleanups:
            f()
    _SEQ[0] += 1
    mod = types.ModuleType(f"utmc_c17_{_SEQ[0]}")
    sys.modules[mod.__name__] = mod
    exec(compile(p.source(), f"<{mod.__name__}>", "exec"), mod.__dict__)
    return mod


def cleanup(mod):
    sys.modules.pop(mod.__name__, None)
    try:
        from utype.parser import base as _pb
        _pb.__parsers__.clear()
    except Exception:
        pass


def bounds(tier):
    return dict(programs=len(programs(tier)), graphs=list(GRAPHS), spellings=SPELLINGS, leaves=LEAVES, nesting=3)


CHUNK = 12


def shards(tier):
    n = len(programs(tier))
    return [("programs", i, min(i + CHUNK, n)) for i in range(0, n, CHUNK)] + [("two-modules",)]


def run_shard(shard, tier):
    acc = Acc()
    if shard[0] == "two-modules":
        _two_modules(acc)
        _shadow(acc)
        _twins(acc)
        return acc
    _, lo, hi = shard
    for p in programs(tier)[lo:hi]:
        use_orders = list(itertools.permutations(p.classes))
        if p.graph == "func":
            use_orders = [("F",) + o for o in use_orders[:1]] + [o + ("F",) for o in use_orders]
        for uo in use_orders:
            try:
                mod = execute(p)
            except Exception as e:
                fp = f"C17|{p.graph}|{'+'.join(p.spellings)}|{'local' if p.local else 'module'}|declaration-{type(e).__name__}"
                acc.violation(fp, f"program {p.key()} does not even execute: {type(e).__name__}: {short(e, 100)}\n{p.source()}",
                              _script(p, uo, None, None))
                break
            first = True
            for cname in uo:
                for data in (inputs_for(p, cname) if cname != "F" else _func_inputs(p)):
                    _one(acc, p, mod, uo, cname, data, first)
                    first = False
            cleanup(mod)
    return acc


def _func_inputs(p):
    return [({"v": 1}, [{"v": 2}]), ({"v": "3"}, None), ({"v": "x"}, None), ({"v": 1, "b": {"v": 2}}, [{"v": "x"}])]


def _one(acc, p, mod, uo, cname, data, first):
    acc.states += 1
    acc.transitions += 1
    if cname == "F":
        x, y = data
        try:
            xa = model_parse(p, "A", x)
            ya = [model_parse(p, "B", e) for e in (y or [])]
            want = ("ok", {"v": xa["v"] + 100, "extra": [len(ya)], **({} if True else {})})
        except Reject:
            want = ("err",)
        st, r = call_guarded(lambda: mod.__dict__["F"](x, y) if y is not None else mod.__dict__["F"](x), wall_s=2.0)
        got = ("ok", {k: v for k, v in to_plain(r).items() if k in ("v", "extra")}) if st == "ok" else \
              ("err",) if isinstance(r, uexc.ParseError) else ("other", type(r).__name__, str(r)[:80])
    else:
        try:
            want = ("ok", model_parse(p, cname, data))
        except Reject:
            want = ("err",)
        cls = mod.__dict__[cname]
        st, r = call_guarded(lambda: cls.__from__(data), wall_s=2.0)
        got = ("ok", to_plain(r)) if st == "ok" else ("err",) if isinstance(r, uexc.ParseError) else \
              ("other", type(r).__name__ if st == "exc" else st, str(r)[:80])
    acc.evaluations += 1
    acc.nontrivial_add((p.key(), uo, cname, repr(data)))
    acc.outcomes[got[0]] += 1
    if canon(got) != canon(want):
        kind = "accepts-invalid" if got[0] == "ok" and want[0] == "err" else "rejects-valid" if got[0] == "err" else \
               "wrong-value" if got[0] == "ok" else "raises-" + str(got[1])
        fp = (f"C17|{p.graph}|{'+'.join(p.spellings)}|{'local' if p.local else 'module'}|{kind}|"
              f"{'first-call' if first else 'later-call'}")
        acc.violation(fp, f"program {p.graph} spellings={p.spellings} order={p.order} {'local' if p.local else 'module'} first-use={uo}: "
                          f"{cname}({data}) gives {short(got, 140)}, the system with direct references gives {short(want, 140)}",
                      _script(p, uo, cname, data))
    elif acc.states % 3001 == 0:
        acc.sample(dict(graph=p.graph, spellings=p.spellings, order=p.order, local=p.local, first_use=uo, call=f"{cname}({data})",
                        outcome=got[0]))


def _script(p, uo, cname, data):
    return "\n".join([
        "import sys", "sys.path.insert(0, '/verif')", "from utmc.props import c17", "from utmc.canon import canon",
        f"p = c17.Program({p.graph!r}, {p.spellings!r}, {p.order!r}, {p.local!r})", "print(p.source())",
        "mod = c17.execute(p)", "acc = c17.Acc()",
        f"for cname in {list(uo)!r}:",
        "    for data in (c17.inputs_for(p, cname) if cname != 'F' else c17._func_inputs(p)):",
        f"        c17._one(acc, p, mod, {tuple(uo)!r}, cname, data, False)",
        "for fp, vs in acc.violations.items(): print(fp); print('  ', vs[0].summary)",
        "sys.exit(1 if acc.violations else 0)"]) + "\n"


# ------------------------------------------------------------------------------------------------ two modules

TWO_SPELLINGS = ["str", "list", "optional", "union-none", "dict", "logical"]


def _two_modules(acc):
    """two modules declare classes with the same names; each must keep referring to its own classes"""
    import typing
    for sp in TWO_SPELLINGS:
        for first_use in ("m1-first", "m2-first", "m1-only-declared", "m1-used-before-m2-declared"):
            for f in typing._cleanups:
                f()
            ann, kind, default = annotation(sp, "B")
            src1 = f"from utmc.ns import *\nclass A(Schema):\n    v: int\n    b: {ann} = {default}\nclass B(Schema):\n    v: int\n"
            src2 = (f"from utmc.ns import *\nclass A(Schema):\n    v: int\n    b: {ann} = {default}\n"
                    f"class B(Schema):\n    v: int\n    tag: str = 'second-module'\n")
            mods = []
            child = {"v": "2"}
            data = {"v": 1, "b": child if kind in ("opt", "plain") else [child] if kind == "list" else {"k": child}}
            for i, src in enumerate((src1, src2)):
                _SEQ[0] += 1
                m = types.ModuleType(f"utmc_c17_two_{_SEQ[0]}")
                sys.modules[m.__name__] = m
                exec(compile(src, f"<{m.__name__}>", "exec"), m.__dict__)
                mods.append(m)
                if i == 0 and first_use == "m1-used-before-m2-declared":
                    m.A.__from__(data)      # the first module is in use before the second one is even imported
            order = [0, 1] if first_use == "m1-first" else [1, 0] if first_use == "m2-first" else [1] \
                if first_use == "m1-only-declared" else [1, 0]
            for mi in order:
                acc.states += 1
                acc.transitions += 1
                m = mods[mi]
                st, r = call_guarded(lambda: m.A.__from__(data), wall_s=2.0)
                acc.evaluations += 1
                acc.nontrivial_add((sp, first_use, mi))
                if st != "ok":
                    acc.outcomes["rejected"] += 1
                    acc.violation(f"C17|two-modules|{sp}|{first_use}|rejected", f"two modules with classes A, B (reference spelled {ann}), "
                                  f"{first_use}: module {mi + 1} rejects {data}: {short(r, 100)}", _two_script(sp, first_use))
                    continue
                nested = r.b if kind in ("opt", "plain") else r.b[0] if kind == "list" else r.b["k"]
                acc.outcomes["ok"] += 1
                if type(nested) is not m.B:
                    acc.violation(f"C17|two-modules|{sp}|{first_use}|wrong-class",
                                  f"two modules with classes A, B (reference spelled {ann}), {first_use}: module {mi + 1}'s A parsed its "
                                  f"field into {type(nested).__module__}.{type(nested).__name__} ({short(nested, 60)}) instead of its own B",
                                  _two_script(sp, first_use))
                acc.sample(dict(scenario="two-modules", spelling=sp, first_use=first_use, module=mi + 1,
                                nested_class=f"{type(nested).__module__}.{type(nested).__name__}"))
            for m in mods:
                cleanup(m)


SHADOW = {
    "local-shadows-module": (
        "from utmc.ns import *\n"
        "class Node(Schema):\n    v: int\n    tag: str = 'module-level'\n"
        "def make():\n    class Node(Schema):\n        v: int\n        nxt: {ann} = {default}\n    return Node\n"
        "Local = make()\n", "Local"),
    "redefined-later": (
        "from utmc.ns import *\n"
        "class Node(Schema):\n    v: int\n    nxt: {ann} = {default}\n"
        "First = Node\n"
        "class Node(Schema):\n    v: int\n    tag: str = 'second definition'\n    nxt: {ann} = {default}\n", "First"),
}


def _shadow(acc):
    """a string self-reference means the declaring class, whatever else the name is bound to in the module"""
    import typing
    for sname, (tmpl, target) in SHADOW.items():
        for sp in TWO_SPELLINGS:
            for f in typing._cleanups:
                f()
            ann, kind, default = annotation(sp, "Node")
            src = tmpl.format(ann=ann, default=default)
            _SEQ[0] += 1
            m = types.ModuleType(f"utmc_c17_shadow_{_SEQ[0]}")
            sys.modules[m.__name__] = m
            exec(compile(src, f"<{m.__name__}>", "exec"), m.__dict__)
            cls = m.__dict__[target]
            child = {"v": "2"}
            data = {"v": 1, "nxt": child if kind in ("opt", "plain") else [child] if kind == "list" else {"k": child}}
            acc.states += 1
            acc.transitions += 1
            st, r = call_guarded(lambda: cls.__from__(data), wall_s=2.0)
            acc.evaluations += 1
            acc.nontrivial_add((sname, sp))
            script = "\n".join(["import sys", "sys.path.insert(0, '/verif')", "from utmc.props import c17", "acc = c17.Acc()",
                                "c17._shadow(acc)", f"hits = [fp for fp in acc.violations if '|{sname}|{sp}|' in fp]",
                                "for fp in hits: print(fp, acc.violations[fp][0].summary)", "sys.exit(1 if hits else 0)"]) + "\n"
            if st != "ok":
                acc.outcomes["rejected"] += 1
                acc.violation(f"C17|shadow|{sname}|{sp}|rejected", f"{sname} (self-reference spelled {ann}): {target}.__from__({data}) "
                              f"is rejected: {short(r, 120)}", script)
            else:
                nested = r.nxt if kind in ("opt", "plain") else r.nxt[0] if kind == "list" else r.nxt["k"]
                acc.outcomes["ok"] += 1
                if type(nested) is not cls:
                    acc.violation(f"C17|shadow|{sname}|{sp}|wrong-class", f"{sname} (self-reference spelled {ann}): the nested value "
                                  f"became {type(nested).__qualname__} {short(nested, 60)} instead of the declaring class", script)
            acc.sample(dict(scenario=sname, spelling=sp, outcome=st))
            cleanup(m)


def _two_script(sp, first_use):
    return "\n".join(["import sys", "sys.path.insert(0, '/verif')", "from utmc.props import c17", "acc = c17.Acc()",
                      "c17._two_modules(acc)", f"hits = [fp for fp in acc.violations if '|{sp}|{first_use}|' in fp]",
                      "for fp in hits: print(fp, acc.violations[fp][0].summary)", "sys.exit(1 if hits else 0)"]) + "\n"


# ------------------------------------------------------------------------------------------------ twins
# A program written with forward references, executed piecewise with probes between the pieces (so that classes and
# functions are first used while some names are still undefined), against its twin written with direct references
# (everything defined first).  The observations of the two must be equal, probe by probe.

TWINS = {
    # name: (forward parts [(source, [probe expr])], direct source)
    "constrained-ref-str-subclass": (
        [("class Holder(Schema):\n    x: 'Later' = Field(max_length=3)\n"
          "    ys: List['Later'] = Field(default_factory=list, max_length=2)\n", []),
         ("class Later(str):\n    pass\n",
          ["Holder(x='abc')", "Holder(x='abcd')", "Holder(x='ab', ys=['a', 'b'])", "Holder(x='ab', ys=['a', 'b', 'c'])"])],
        "class Later(str):\n    pass\n"
        "class Holder(Schema):\n    x: Later = Field(max_length=3)\n    ys: List[Later] = Field(default_factory=list, max_length=2)\n"),
    "constrained-ref-rule-subclass": (
        [("class Holder(Schema):\n    c: 'Code' = Field(max_length=2)\n    n: 'Count' = Field(le=5, default=1)\n", []),
         ("class Code(str, Rule):\n    regex = '[A-Z]+'\nclass Count(int, Rule):\n    ge = 0\n",
          ["Holder(c='AB')", "Holder(c='ABC')", "Holder(c='ab')", "Holder(c='A', n=5)", "Holder(c='A', n=6)", "Holder(c='A', n=-1)"])],
        "class Code(str, Rule):\n    regex = '[A-Z]+'\nclass Count(int, Rule):\n    ge = 0\n"
        "class Holder(Schema):\n    c: Code = Field(max_length=2)\n    n: Count = Field(le=5, default=1)\n"),
    "constrained-ref-function-param": (
        [("@utype.parse\ndef f(x: 'Later' = Param(max_length=3, default='')):\n    return (type(x).__name__, str(x))\n", ["f()"]),
         ("class Later(str):\n    pass\n", ["f('abc')", "f('abcd')", "f(x='ab')"])],
        "class Later(str):\n    pass\n"
        "@utype.parse\ndef f(x: Later = Param(max_length=3, default='')):\n    return (type(x).__name__, str(x))\n"),
    "function-partial-first-call": (
        [("@utype.parse\ndef f(l: 'Left' = None, r: 'Right' = None):\n"
          "    return (type(l).__name__, type(r).__name__, getattr(l, 'v', None), getattr(r, 'v', None))\n", []),
         ("class Left(Schema):\n    v: int\n", ["f(l={'v': '1'})", "f()"]),
         ("class Right(Schema):\n    v: int\n", ["f(l={'v': 1}, r={'v': '2'})", "f(r={'v': 'x'})", "f(r={'v': 3})"])],
        "class Left(Schema):\n    v: int\nclass Right(Schema):\n    v: int\n"
        "@utype.parse\ndef f(l: Left = None, r: Right = None):\n"
        "    return (type(l).__name__, type(r).__name__, getattr(l, 'v', None), getattr(r, 'v', None))\n"),
    "function-varargs-refs": (
        [("@utype.parse\ndef f(*args: 'A', **kwargs: 'B') -> 'R':\n"
          "    return dict(n=len(args) + len(kwargs), names=[type(a).__name__ for a in args] + [type(b).__name__ for b in kwargs.values()])\n", []),
         ("class A(Schema):\n    v: int\nclass B(Schema):\n    w: int\n", []),
         ("class R(Schema):\n    n: int\n    names: List[str]\n", ["f({'v': '1'}, k={'w': 2})", "f({'v': 'x'})", "f(k={'v': 1})", "f()"])],
        "class A(Schema):\n    v: int\nclass B(Schema):\n    w: int\nclass R(Schema):\n    n: int\n    names: List[str]\n"
        "@utype.parse\ndef f(*args: A, **kwargs: B) -> R:\n"
        "    return dict(n=len(args) + len(kwargs), names=[type(a).__name__ for a in args] + [type(b).__name__ for b in kwargs.values()])\n"),
    "two-bases-same-pending-name": (
        [("class B1(Schema):\n    xs: List['Tgt'] = Field(default_factory=list)\n"
          "class B2(Schema):\n    m: Dict[str, 'Tgt'] = Field(default_factory=dict)\n"
          "class S(B1, B2):\n    z: int = 0\n", []),
         ("class Tgt(Schema):\n    v: int\n",
          ["S(xs=[{'v': '1'}], m={'k': {'v': 2}})", "S(xs=[{'v': 'x'}])", "S(m={'k': {'w': 1}})", "B1(xs=[{'v': 3}])", "B2(m={'k': {'v': '4'}})"])],
        "class Tgt(Schema):\n    v: int\n"
        "class B1(Schema):\n    xs: List[Tgt] = Field(default_factory=list)\n"
        "class B2(Schema):\n    m: Dict[str, Tgt] = Field(default_factory=dict)\n"
        "class S(B1, B2):\n    z: int = 0\n"),
    "generic-inside-logical": (
        [("class H(Schema):\n    x: types.NegativeInt | List['Later'] = -1\n    y: one_of(List['Later'], int) = 0\n", []),
         ("class Later(Schema):\n    v: int\n", ["H(x=[{'v': '1'}])", "H(x=-3)", "H(x=[{'v': 'x'}])", "H(y=[{'v': 2}])", "H(y='5')"])],
        "class Later(Schema):\n    v: int\n"
        "class H(Schema):\n    x: types.NegativeInt | List[Later] = -1\n    y: one_of(List[Later], int) = 0\n"),
    "decorated-dataclass-ref": (
        [("@utype.dataclass\nclass D:\n    v: int\n    nxt: Optional['E'] = None\n    tags: List['Tag'] = Field(default_factory=list, max_length=2)\n", []),
         ("@utype.dataclass\nclass E:\n    w: int\n    back: Optional[D] = None\nclass Tag(str):\n    pass\n",
          ["D(v='1', nxt={'w': '2', 'back': {'v': 3}})", "D(v=1, tags=['a', 'b'])", "D(v=1, tags=['a', 'b', 'c'])", "D(v=1, nxt={'w': 'x'})"])],
        "class Tag(str):\n    pass\n"
        "@utype.dataclass\nclass D:\n    v: int\n    nxt: Optional['E'] = None\n    tags: List[Tag] = Field(default_factory=list, max_length=2)\n"
        "@utype.dataclass\nclass E:\n    w: int\n    back: Optional[D] = None\n"),
    "generator-yield-ref": (
        [("@utype.parse\ndef g(n: int) -> Iterator['P']:\n    for i in range(n):\n        yield dict(v=str(i))\n"
          "@utype.parse\ndef h(n: int) -> Generator['P', 'Tg', List['P']]:\n    got = yield dict(v=n)\n"
          "    return [dict(v=len(got))]\n", []),
         ("class P(Schema):\n    v: int\nclass Tg(str):\n    pass\n",
          ["[(type(x).__name__, x.v) for x in g(2)]", "[(type(x).__name__, x.v) for x in g('1')]", "list(g('x'))",
           "(lambda it: (type(next(it)).__name__, [type(it.send('ab')).__name__] if False else None))(h(1))",
           "[(type(x).__name__, x.v) for x in g(3)]"])],
        "class P(Schema):\n    v: int\nclass Tg(str):\n    pass\n"
        "@utype.parse\ndef g(n: int) -> Iterator[P]:\n    for i in range(n):\n        yield dict(v=str(i))\n"
        "@utype.parse\ndef h(n: int) -> Generator[P, Tg, List[P]]:\n    got = yield dict(v=n)\n    return [dict(v=len(got))]\n"),
    "generator-yield-ref-local": (
        [("def make():\n    @utype.parse\n    def g(n: int) -> Iterator['P']:\n        for i in range(n):\n            yield dict(v=str(i))\n"
          "    class P(Schema):\n        v: int\n    return g, P\ng, P = make()\n",
          ["[(type(x).__name__, x.v) for x in g(2)]", "list(g('x'))", "[(type(x).__name__, x.v) for x in g(1)]"])],
        "def make():\n    class P(Schema):\n        v: int\n    @utype.parse\n    def g(n: int) -> Iterator[P]:\n        for i in range(n):\n"
        "            yield dict(v=str(i))\n    return g, P\ng, P = make()\n"),
    "generator-yield-ref-postponed-annotations": (
        [("from __future__ import annotations\n@utype.parse\ndef g(n: int) -> Iterator[P]:\n    for i in range(n):\n        yield dict(v=str(i))\n", []),
         ("class P(Schema):\n    v: int\n", ["[(type(x).__name__, x.v) for x in g(2)]", "list(g('x'))"])],
        "class P(Schema):\n    v: int\n"
        "@utype.parse\ndef g(n: int) -> Iterator[P]:\n    for i in range(n):\n        yield dict(v=str(i))\n"),
    "async-generator-whole-annotation-ref": (
        [("@utype.parse\nasync def ag(n: int) -> 'AsyncGenerator[P, Tg]':\n    got = yield dict(v=str(n))\n    yield dict(v=len(got))\n"
          "@utype.parse\nasync def ai(n: int) -> typing.AsyncIterator['P']:\n    yield dict(v=str(n))\n"
          "@utype.parse\nasync def co(n: int) -> 'P':\n    return dict(v=str(n))\n", []),
         ("class P(Schema):\n    v: int\nclass Tg(str):\n    pass\n",
          ["adrain(ag(1), ['ab'])", "adrain(ai('2'), [])", "adrain(ag('x'), [])", "arun(co(3))", "adrain(ag(2), [5])"])],
        "class P(Schema):\n    v: int\nclass Tg(str):\n    pass\n"
        "@utype.parse\nasync def ag(n: int) -> AsyncGenerator[P, Tg]:\n    got = yield dict(v=str(n))\n    yield dict(v=len(got))\n"
        "@utype.parse\nasync def ai(n: int) -> typing.AsyncIterator[P]:\n    yield dict(v=str(n))\n"
        "@utype.parse\nasync def co(n: int) -> P:\n    return dict(v=str(n))\n"),
    "local-function-kwargs-ref": (
        [("def make():\n    @utype.parse\n    def f(a: int = 0, *args: 'X', **kwargs: 'X'):\n"
          "        return (a, [type(x).__name__ for x in args], sorted((k, type(v).__name__, v.v) for k, v in kwargs.items()))\n"
          "    class X(Schema):\n        v: int\n    return f, X\nf, X = make()\n",
          ["f(1, k={'v': '2'})", "f(1, {'v': 3}, k={'v': 4})", "f(k={'v': 'x'})", "f(2)"])],
        "def make():\n    class X(Schema):\n        v: int\n    @utype.parse\n    def f(a: int = 0, *args: X, **kwargs: X):\n"
        "        return (a, [type(x).__name__ for x in args], sorted((k, type(v).__name__, v.v) for k, v in kwargs.items()))\n"
        "    return f, X\nf, X = make()\n"),
    "result-only-function-ref": (
        [("@utype.parse(ignore_params=True)\ndef r1(x) -> 'Rec':\n    return dict(v=x)\n"
          "@utype.parse(ignore_params=True)\ndef r2(x) -> List['Rec']:\n    return [dict(v=x)]\n"
          "@utype.parse(ignore_result=True)\ndef r3(x: 'Rec') -> 'Rec':\n    return type(x).__name__\n", []),
         ("class Rec(Schema):\n    v: int\n",
          ["(type(r1('1')).__name__, r1('1').v)", "[type(y).__name__ for y in r2(2)]", "r1('x')", "r3({'v': '3'})", "r3({'v': 'x'})"])],
        "class Rec(Schema):\n    v: int\n"
        "@utype.parse(ignore_params=True)\ndef r1(x) -> Rec:\n    return dict(v=x)\n"
        "@utype.parse(ignore_params=True)\ndef r2(x) -> List[Rec]:\n    return [dict(v=x)]\n"
        "@utype.parse(ignore_result=True)\ndef r3(x: Rec) -> Rec:\n    return type(x).__name__\n"),
    "shipped-generic-ref": (
        [("class H(Schema):\n    xs: types.Array['B'] = Field(default_factory=list)\n", []),
         ("class B(Schema):\n    v: int\n", ["H(xs=[{'v': '1'}])", "H(xs=[{'v': 'x'}])", "H()"])],
        "class B(Schema):\n    v: int\nclass H(Schema):\n    xs: types.Array[B] = Field(default_factory=list)\n"),
    "local-generic-inside-logical": (
        [("def make():\n    class Loc(Schema):\n        v: int = 0\n        kids: types.NegativeInt | List['Loc'] = -1\n    return Loc\nLoc = make()\n",
          ["Loc(kids=[{'v': '1'}])", "Loc(kids=-2)", "Loc(kids=[{'v': 'x'}])", "Loc(kids=[{'kids': [{'v': 2}]}])"])],
        "class Loc(Schema):\n    v: int = 0\n    kids: types.NegativeInt | List['Loc'] = -1\n"),
    "declared-init-assigns-forward-typed-field": (
        [("class Holder(DataClass):\n    item: 'Late' = None\n    def __init__(self, raw):\n        self.item = raw\n", []),
         ("class Late(Schema):\n    v: int\n", ["Holder({'v': '1'}).item", "Holder({'v': 'x'})"])],
        "class Late(Schema):\n    v: int\nclass Holder(DataClass):\n    item: Late = None\n    def __init__(self, raw):\n        self.item = raw\n"),
    "final-under-postponed-annotations": (
        [("from __future__ import annotations\nclass F(Schema):\n    k: typing.Final[int] = 4\n    v: int = 0\n", ["F(v='1')", "F(k=5, v=2)"])],
        "class F(Schema):\n    k: typing.Final[int] = 4\n    v: int = 0\n"),
    "local-class-property-returns-later-class": (
        [("def make():\n    class Report(Schema):\n        n: int = 0\n        @property\n        def owner(self) -> 'OwnerF':\n"
          "            return {'v': self.n}\n        @property\n        def owners(self) -> List['OwnerF']:\n"
          "            return [{'v': str(self.n)}]\n    return Report\nReport = make()\n", []),
         ("class OwnerF(Schema):\n    v: int\n", ["Report(n='3').owner", "Report(n=2).owners", "dict(Report(n=1))", "Report(n='x')"])],
        "class OwnerF(Schema):\n    v: int\n"
        "def make():\n    class Report(Schema):\n        n: int = 0\n        @property\n        def owner(self) -> OwnerF:\n"
        "            return {'v': self.n}\n        @property\n        def owners(self) -> List[OwnerF]:\n"
        "            return [{'v': str(self.n)}]\n    return Report\nReport = make()\n"),
    "discriminator-over-forward-refs": (
        [("class H(Schema):\n    item: Union['X', 'Y'] = Field(discriminator='kind')\n", []),
         ("class X(Schema):\n    kind: Literal['x']\n    v: int = 0\n"
          "class Y(Schema):\n    kind: Literal['y']\n    w: int = 0\n",
          ["H(item={'kind': 'x', 'v': '1'})", "H(item={'kind': 'y', 'w': 2})", "H(item={'kind': 'z'})"])],
        "class X(Schema):\n    kind: Literal['x']\n    v: int = 0\n"
        "class Y(Schema):\n    kind: Literal['y']\n    w: int = 0\n"
        "class H(Schema):\n    item: Union[X, Y] = Field(discriminator='kind')\n"),
    "constrained-optional-over-forward-alias": (
        [("class H(Schema):\n    x: Optional['Cnt'] = Field(ge=1, default=None)\n", []),
         ("Cnt = int\n", ["H(x='3')", "H(x=0)", "H()", "H(x=None)"])],
        "Cnt = int\nclass H(Schema):\n    x: Optional[Cnt] = Field(ge=1, default=None)\n"),
    "schema-init-assigns-before-any-parse": (
        [("class Sx(Schema):\n    child: 'Later' = None\n    def __init__(self, v: int):\n        self.child = {'v': v}\n", []),
         ("class Later(Schema):\n    v: int\n", ["Sx(v=3).child", "Sx(v='4').child"])],
        "class Later(Schema):\n    v: int\nclass Sx(Schema):\n    child: Later = None\n    def __init__(self, v: int):\n        self.child = {'v': v}\n"),
    "postponed-annotated-with-field": (
        [("from __future__ import annotations\nclass H(Schema):\n    k: typing.Annotated[Optional[Kid], Field(alias_from=['kid'])] = None\n", []),
         ("class Kid(Schema):\n    v: int\n", ["H(kid={'v': '1'})", "H(k={'v': 2})", "H()", "H(kid={'v': 'x'})"])],
        "class Kid(Schema):\n    v: int\nclass H(Schema):\n    k: typing.Annotated[Optional[Kid], Field(alias_from=['kid'])] = None\n"),
    "classvar-under-postponed-annotations": (
        [("from __future__ import annotations\nclass F(Schema):\n    c: typing.ClassVar[int] = 3\n    v: int = 0\n",
          ["F(v='1')", "F(c=5, v=2)", "sorted(F.__parser__.fields)", "F.c"])],
        "class F(Schema):\n    c: typing.ClassVar[int] = 3\n    v: int = 0\n"),
    "subclass-adds-ref-to-pending-base": (
        [("class Base(Schema):\n    a: Optional['X'] = None\n"
          "class Sub(Base):\n    b: List['Y'] = Field(default_factory=list)\n", []),
         ("class X(Schema):\n    v: int\n", []),
         ("class Y(Schema):\n    w: int\n", ["Sub(a={'v': '1'}, b=[{'w': '2'}])", "Base(a={'v': 2})", "Sub(b=[{'w': 'x'}])", "Sub(a={'w': 1})"])],
        "class X(Schema):\n    v: int\nclass Y(Schema):\n    w: int\n"
        "class Base(Schema):\n    a: Optional[X] = None\n"
        "class Sub(Base):\n    b: List[Y] = Field(default_factory=list)\n"),
}


def plain(v, depth=0):
    """an observation: nested structure with class names (module-independent)"""
    if depth > 8:
        return "<deep>"
    cls = type(v)
    if hasattr(cls, "__parser__"):
        data = dict(dict.items(v)) if isinstance(v, dict) else {k: x for k, x in v.__dict__.items() if not k.startswith("__")}
        return ("inst", cls.__name__, sorted((str(k), repr(plain(x, depth + 1))) for k, x in data.items()))
    if isinstance(v, dict):
        return ("dict", sorted((repr(k), repr(plain(x, depth + 1))) for k, x in v.items()))
    if isinstance(v, (list, tuple)):
        return (cls.__name__, [plain(x, depth + 1) for x in v])
    return (cls.__name__, repr(v))


def _probe(mod, expr):
    st, r = call_guarded(lambda: eval(expr, mod.__dict__), wall_s=2.0)
    if st == "ok":
        return ("ok", plain(r))
    if st == "exc" and isinstance(r, uexc.ParseError):
        return ("rejected", "ParseError")
    return ("other", f"{type(r).__name__ if st == 'exc' else st}: {short(r, 100)}")


def arun(aw):
    """run an awaitable that never really suspends (no event loop, no time)"""
    import inspect
    if not inspect.isawaitable(aw):
        return aw
    try:
        aw.send(None)
    except StopIteration as e:
        return e.value
    raise RuntimeError("harness: awaitable suspended")


def adrain(agen, sends):
    """drive an async generator: first item, then one asend per element of `sends`, then to exhaustion"""
    import inspect
    if inspect.iscoroutine(agen):
        agen = arun(agen)
    out = []
    try:
        out.append(arun(agen.__anext__()))
        for x in sends:
            out.append(arun(agen.asend(x)))
        while True:
            out.append(arun(agen.__anext__()))
    except StopAsyncIteration:
        pass
    return [(type(x).__name__, getattr(x, "v", x)) for x in out]


def _fresh_module(tag):
    import typing
    for f in typing._cleanups:
        f()
    _SEQ[0] += 1
    m = types.ModuleType(f"utmc_c17_{tag}_{_SEQ[0]}")
    sys.modules[m.__name__] = m
    exec("from utmc.ns import *", m.__dict__)
    m.__dict__.update(arun=arun, adrain=adrain)
    return m


def run_twin(name, local=False):
    """-> (observations of the forward program, observations of the direct twin), each [(probe, outcome)]"""
    parts, direct = TWINS[name]
    fm = _fresh_module("twin_f")
    fobs = []
    try:
        for src, probes in parts:
            exec(compile(src, f"<{fm.__name__}>", "exec"), fm.__dict__)
            for pr in probes:
                fobs.append((pr, _probe(fm, pr)))
    except Exception as e:
        fobs.append(("<declaration>", ("other", f"{type(e).__name__}: {short(e, 120)}")))
    cleanup(fm)
    dm = _fresh_module("twin_d")
    exec(compile(direct, f"<{dm.__name__}>", "exec"), dm.__dict__)
    dobs = [(pr, _probe(dm, pr)) for _, probes in parts for pr in probes]
    cleanup(dm)
    return fobs, dobs


def _twins(acc):
    for name in TWINS:
        fobs, dobs = run_twin(name)
        script = "\n".join(["import sys", "sys.path.insert(0, '/verif')", "from utmc.props import c17",
                            f"f, d = c17.run_twin({name!r})", "bad = False",
                            "for (p, a), (_, b) in zip(f, d):", "    print(p, '\\n   forward:', a, '\\n   direct: ', b); bad = bad or a != b",
                            "sys.exit(1 if bad or len(f) != len(d) else 0)"]) + "\n"
        if len(fobs) != len(dobs):
            acc.states += 1
            acc.violation(f"C17|twin|{name}|declaration", f"twin {name}: the forward-reference program stops at {fobs[-1]}", script)
            continue
        for (pr, a), (_, b) in zip(fobs, dobs):
            acc.states += 1
            acc.transitions += 2
            acc.evaluations += 1
            acc.nontrivial_add((name, pr))
            acc.outcomes[a[0]] += 1
            if b[0] == "other":
                raise RuntimeError(f"harness error: the direct twin of {name} fails on {pr}: {b}")
            if a != b:
                acc.violation(f"C17|twin|{name}|{a[0]}-vs-{b[0]}", f"twin {name}: {pr} gives {short(a, 160)} with forward references but "
                              f"{short(b, 160)} when the same program is written with direct references", script)
        acc.sample(dict(scenario="twin:" + name, probes=len(fobs), outcomes=[a[0] for _, a in fobs]))
