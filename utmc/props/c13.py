"""C13 — the generated JSON Schema is valid and describes what the parser does.

E1: for every type of the JSON-expressible, negation-free fragment and every data class of the C05 field menu (under
the class option sets and modes): (a) the generated documents are JSON-serialisable and pass the Draft 2020-12
meta-schema; (b) every value the parser produces for an accepted input validates, after JSON encoding, against the
output schema; (c) the structure of the input schema (properties + aliases, required, additionalProperties) is compared
with the behaviour of the parser *observed* by feeding candidate keys one at a time.
"""
import itertools
import json

from ..core import Acc, bootstrap, call_guarded

bootstrap()
from .. import spec as S, typegram as tg, dcmodel as M, inputs as I    # noqa: E402
from ..universe import _NS, ev, all_atoms        # noqa: E402
from ..canon import short, canon               # noqa: E402

import jsonschema                                                # noqa: E402
from utype.specs.json_schema.generator import JsonSchemaGenerator   # noqa: E402
from utype.utils.encode import JSONEncoder                      # noqa: E402
from utype.utils import exceptions as uexc                      # noqa: E402

ID = "C13"
LEVEL = "model_checking"
RULE = ("product space: (types) JSON-expressible leaves, constrained types, shipped utype.types, Literal, generics to depth "
        "1 (quick) / 2, |, ^, & combinations x the atom alphabet plus directed inputs; (data classes) the C05 Field menu in "
        "1- and 2-field classes of both bases x 10 class option sets (addition, case_insensitive, modes r/w/a) x {input, "
        "output} view, plus nested and recursive classes with $defs; state = one (declaration, view) or (declaration, "
        "input); a case is non-trivial when a produced value was validated or a structural fact was compared")
ASSUMPTIONS = [
    "the judge of validity is jsonschema.Draft202012Validator (check_schema for the documents, iter_errors for values); "
    "format is an annotation",
    "values are encoded with utype's JSONEncoder and re-read with json.loads before validation",
    "structure is compared with *observed* parser behaviour: a key is an input name iff feeding it alone (next to valid "
    "values for the other required fields) makes its value show up; a field is required iff omitting it alone is an error; "
    "the fate of an unknown key (rejected / kept / converted / dropped) gives the expected additionalProperties",
]

JSON_LEAVES = ["NoneType", "bool", "int", "float", "Decimal", "str", "bytes", "list", "tuple", "set", "dict", "date", "datetime",
               "time", "timedelta", "UUID", "Color", "Num", "MyInt", "MyStr", "Prio", "Plain"]
JSON_ORIGINS = {"int", "float", "Decimal", "str", "bytes", "list", "tuple", "set", "dict", "datetime", "date", "timedelta", "MyInt",
                "MyStr", None}


def type_specs(tier):
    specs = [("t", n) for n in JSON_LEAVES]
    specs += [sp for sp in tg.constrained_specs(routes=("cls",)) if sp[1] in JSON_ORIGINS
              and not any("inf" in b for _, b in sp[2])]      # infinities are not JSON values
    # InfinityFloat / AbnormalFloat enumerate infinities (not JSON values), NormalFloat is built with a negation
    # constraint values that are not JSON values themselves, inside a list
    specs += [("r", "date", (("enum", "[date(2020,1,2), date(2020,1,3)]"),), "cls"),
              ("r", "Decimal", (("enum", "[Decimal('1.5'), Decimal('2')]"),), "cls")]
    specs += [sp for sp in tg.SHIPPED if sp[1] not in ("types.InfinityFloat", "types.AbnormalFloat", "types.NormalFloat")]
    specs += [sp for sp in tg.literal_specs() if "b'x'" not in sp[1]]
    elems = [e for e in (tg.REP_ELEMS if tier == "thorough" else tg.REP_ELEMS_Q) if e != ("t", "Any") and e != ("t", "Unreg")]
    specs += [sp for sp in tg.generic_specs(depth=2 if tier == "thorough" else 1, elems=elems)
              if not (sp[1] in ("Dict", "Mapping") and sp[2][0][0] == "g")]
    leaves = [l for l in tg.LOGIC_LEAVES if l != ("t", "Any")]
    specs += tg.logical_specs(leaves=leaves[:9] if tier != "thorough" else leaves, ops="|^&", with_not=False)
    return specs


CLASS_OPTIONS = ["", "addition=True", "addition=False", "addition=int", "case_insensitive=True", "mode='r'", "mode='w'",
                 "mode='a'", "addition=False, mode='w'", "case_insensitive=True, addition=True",
                 # defaults that the parser does not fill in are not required of its output
                 "no_default=True", "defer_default=True", "ignore_required=True",
                 # the type of the extra keys given as an annotation, not as a class
                 "addition=List[int]"]


# declarations used by this check only (no reference model needed here: the structure is observed on the parser)
for _fd in (M.FD("mode-rw-no-output-w", "Field(mode='rw', no_output='w', default=7)", mode="rw", no_output="w", required=False,
                 default=("v", 7)),
            M.FD("mode-rw-no-output-w-req", "Field(mode='rw', no_output='w')", mode="rw", no_output="w"),
            M.FD("mode-wa-no-input-a", "Field(mode='wa', no_input='a', default=7)", mode="wa", no_input="a", required=False,
                 default=("v", 7)),
            M.FD("mode-r-no-output-r", "Field(mode='r', no_output='r', required=False)", mode="r", no_output="r", required=False),
            # a Final field with a default never takes input, in any mode and without a mode
            M.FD("final-default", plain_default="4", required=False, default=("v", 4), no_input=True, ann="typing.Final[int]"),
            M.FD("final-field-default", "Field(default=4, ge=1)", required=False, default=("v", 4), no_input=True,
                 ann="typing.Final[int]"),
            # fields whose type has no schema of its own (their property schema is empty, they are properties all the same)
            M.FD("any-req", ann="typing.Any"),
            M.FD("any-default", plain_default="7", required=False, default=("v", 7), ann="typing.Any"),
            M.FD("any-optional", "Field(required=False)", required=False, ann="typing.Any")):
    M.MENU_BY_TAG.setdefault(_fd.tag, _fd)
LOCAL_TAGS = ["mode-rw-no-output-w", "mode-rw-no-output-w-req", "mode-wa-no-input-a", "mode-r-no-output-r", "final-default",
              "final-field-default", "any-req", "any-default", "any-optional"]


def class_decls(tier):
    out = []
    menu = M.MENU
    for base in ("Schema", "DataClass"):
        for m in menu:
            if m.deps:
                continue
            out.append((base, (m.tag,)))
        for tag in LOCAL_TAGS:
            out.append((base, (tag,)))
            out.append((base, (tag, "req")))
        pairs = [("dep", "req"), ("dep-default", "optional"), ("alias", "alias-from"), ("no-input", "no-output"),
                 ("readonly", "writeonly-req"), ("ci-alias", "req"), ("mode-ra", "default"), ("alias-both", "factory"),
                 ("no-input-w", "no-output-r"), ("exclude", "preserve"), ("dep", "alias"), ("dep-default", "alias-both"),
                 ("dep", "ci-alias")]
        if tier == "thorough":
            tags = [m.tag for m in menu if not m.deps]
            pairs += [(a, b) for a in tags[:12] for b in tags[:12]]
        for a, b in pairs:
            out.append((base, (a, b)))
    return out


def bounds(tier):
    return dict(types=len(type_specs(tier)), data_classes=len(class_decls(tier)), class_option_sets=len(CLASS_OPTIONS),
                atoms=len(all_atoms(include_deep=False)))


CHUNK = 8


def shards(tier):
    n = len(type_specs(tier))
    m = len(class_decls(tier))
    return ([("types", i, min(i + CHUNK, n)) for i in range(0, n, CHUNK)] +
            [("classes", i, min(i + 3, m)) for i in range(0, m, 3)] + [("programs",)])


def check_document(doc):
    """-> None | (kind, message)"""
    try:
        json.dumps(doc, allow_nan=False)
    except Exception as e:
        return ("not-json-serialisable", f"{type(e).__name__}: {short(e, 80)}")
    try:
        jsonschema.Draft202012Validator.check_schema(doc)
    except Exception as e:
        return ("invalid-schema", short(getattr(e, "message", e), 120))
    return None


def encode(v):
    return json.loads(json.dumps(v, cls=JSONEncoder))


def run_shard(shard, tier):
    acc = Acc()
    if shard[0] == "types":
        _types(acc, shard[1], shard[2], tier)
    elif shard[0] == "classes":
        _classes(acc, shard[1], shard[2], tier)
    else:
        _programs(acc)
    return acc


# ------------------------------------------------------------------------------------------------ types

def _types(acc, lo, hi, tier):
    atoms = [a for a in all_atoms(include_deep=False)]
    for sp in type_specs(tier)[lo:hi]:
        texpr = S.type_expr(sp)
        try:
            t = S.build(sp)
        except Exception as e:
            acc.extra["declarations_rejected_at_build"] += 1
            continue
        docs = {}
        for view, out in (("input", False), ("output", True)):
            acc.states += 1
            acc.transitions += 1
            st, doc = call_guarded(lambda: JsonSchemaGenerator(t, output=out)(), wall_s=2.0)
            if st != "ok":
                _tviol(acc, sp, f"generate-{type(doc).__name__}", f"generating the {view} schema raised {short(doc, 100)}", view)
                continue
            bad = check_document(doc)
            acc.evaluations += 1
            if bad:
                _tviol(acc, sp, f"{bad[0]}", f"{view} schema {short(doc, 120)}: {bad[1]}", view)
                continue
            docs[view] = doc
        if "output" not in docs:
            continue
        validator = jsonschema.Draft202012Validator(docs["output"])
        vals = atoms + I.directed_inputs(sp, k=2)[:150]
        seen = set()
        for vx in vals:
            if vx in seen:
                continue
            seen.add(vx)
            st, y = call_guarded(lambda: _NS["type_transform"](ev(vx), t), wall_s=1.0)
            acc.states += 1
            acc.transitions += 1
            if st != "ok":
                acc.outcomes["rejected"] += 1
                continue
            try:
                enc = encode(y)
                json.dumps(enc, allow_nan=False)
            except Exception:
                acc.outcomes["result-not-json"] += 1      # NaN / infinities / unencodable objects: outside the fragment
                continue
            if _outside_domain(y):
                acc.outcomes["result-outside-json-faithful-domain"] += 1
                continue
            acc.evaluations += 1
            acc.nontrivial_add((sp, vx))
            errs = sorted(validator.iter_errors(enc), key=lambda e: e.message)
            if errs:
                acc.outcomes["value-violates-schema"] += 1
                sub = ""
                members = docs["output"].get("allOf") if isinstance(docs["output"], dict) else None
                if isinstance(members, list) and len(members) > 1:
                    # sub-class of the recorded design-level finding: & converts in sequence, the value satisfies the
                    # schema of the last argument but not that of an earlier one
                    defs = {k: v for k, v in docs["output"].items() if k in ("$defs", "definitions")}
                    ok = [jsonschema.Draft202012Validator({**defs, **m} if isinstance(m, dict) else m).is_valid(enc) for m in members]
                    if ok[-1] and not all(ok[:-1]):
                        sub = "@allof-last-member-wins"
                if not sub and isinstance(docs["output"], dict) and isinstance(docs["output"].get("oneOf"), list):
                    # sub-class: the value of the single accepting argument is valid under two or more branches
                    # (valid under none would be another matter)
                    defs = {k: v for k, v in docs["output"].items() if k in ("$defs", "definitions")}
                    n_ok = sum(jsonschema.Draft202012Validator({**defs, **m} if isinstance(m, dict) else m).is_valid(enc)
                               for m in docs["output"]["oneOf"])
                    if n_ok >= 2:
                        sub = "@overlap"
                if not sub and isinstance(enc, bool) and validator.is_valid(int(enc)):
                    # sub-class: a Python bool where an integer is described, the same number as int would pass
                    sub = "@bool-as-integer"
                _tviol(acc, sp, "value-violates-" + ",".join(sorted({str(e.validator) for e in errs})) + "@" + _jsonkind(enc) + sub,
                       f"input {vx} parses to {short(y, 50)} (JSON {json.dumps(enc)[:60]}) which the output schema "
                       f"{json.dumps(docs['output'])[:160]} rejects: {errs[0].message[:80]}", "output", vx)
            else:
                acc.outcomes["value-validates"] += 1
            if acc.evaluations % 997 == 0:
                acc.sample(dict(type=texpr, schema=docs["output"], input=vx, value=short(y, 40)))
        S.clear_built()


def _jsonkind(enc):
    return {type(None): "null", bool: "boolean", int: "integer", float: "number", str: "string", list: "array",
            dict: "object"}.get(type(enc), type(enc).__name__)


def _outside_domain(v, depth=0):
    """Decimals the encoder cannot carry as a JSON number (beyond 15 significant digits / the JS-safe range)"""
    from decimal import Decimal
    if isinstance(v, int) and not isinstance(v, bool):
        return abs(v) > 10 ** 300          # no JSON number type can tell such an integer from a float
    if isinstance(v, Decimal):
        if not v.is_finite():
            return True
        return len(v.as_tuple().digits) > 15 or abs(v) > 9007199254740991 or (v != 0 and abs(v) < Decimal("1e-300"))
    if depth < 4:
        if isinstance(v, dict):
            return any(_outside_domain(x, depth + 1) for x in list(v.keys()) + list(v.values()))
        if isinstance(v, (list, tuple, set, frozenset)):
            return any(_outside_domain(x, depth + 1) for x in v)
    return False


def _tviol(acc, sp, kind, msg, view, vx=None):
    fp = f"C13|type|{S.shape(sp)}|{view}|{kind}"
    script = "\n".join([
        "import sys, json", "sys.path.insert(0, '/verif'); sys.path.append('/verif/.deps')", "from utmc.ns import *",
        "import jsonschema", "from utype.specs.json_schema.generator import JsonSchemaGenerator",
        "from utype.utils.encode import JSONEncoder",
        f"t = {S.type_expr(sp)}", f"doc = JsonSchemaGenerator(t, output={view == 'output'!r})()", "print(doc)",
        "json.dumps(doc); jsonschema.Draft202012Validator.check_schema(doc)",
        (f"y = type_transform({vx}, t); enc = json.loads(json.dumps(y, cls=JSONEncoder)); print(repr(y), enc)\n"
         "errs = list(jsonschema.Draft202012Validator(doc).iter_errors(enc)); print([e.message for e in errs])\n"
         "sys.exit(1 if errs else 0)") if vx else "sys.exit(0)"]) + "\n"
    acc.violation(fp, f"{S.type_expr(sp)}: {msg}", script)


# ------------------------------------------------------------------------------------------------ data classes

VALID = 1


def _classes(acc, lo, hi, tier):
    from . import c05
    for base, tags in class_decls(tier)[lo:hi]:
        fields = c05.bind_fields(tags)
        for cexpr in CLASS_OPTIONS:
            try:
                cls, src = c05.build_class(base, fields, cexpr)
            except Exception:
                acc.extra["declarations_rejected_at_build"] += 1
                continue
            mode = "r" if "mode='r'" in cexpr else "w" if "mode='w'" in cexpr else "a" if "mode='a'" in cexpr else None
            _one_class(acc, base, tags, fields, cexpr, cls, src, mode)
        try:
            from utype.parser import base as _pb
            _pb.__parsers__.clear()
        except Exception:
            pass


def _observe(cls, data):
    try:
        inst = cls.__from__(dict(data))
    except uexc.ParseError as e:
        return ("err", e)
    except Exception as e:
        return ("other", e)
    return ("ok", inst)


def _one_class(acc, base, tags, fields, cexpr, cls, src, mode):
    shape = f"{base}|{'+'.join(tags)}|{cexpr or '-'}"

    def viol(kind, msg, view="input"):
        fp = f"C13|class|{shape}|{view}|{kind}"
        script = "\n".join([
            "import sys, json", "sys.path.insert(0, '/verif'); sys.path.append('/verif/.deps')", "from utmc.ns import *",
            "import jsonschema", "from utype.specs.json_schema.generator import JsonSchemaGenerator", src,
            f"doc = JsonSchemaGenerator(S, output={view == 'output'!r})()", "print(json.dumps(doc, default=repr, indent=1))",
            f"# {msg}", "from utmc.props import c13, c05",
            f"acc = c13.Acc(); fields = c05.bind_fields({tags!r})",
            f"c13._one_class(acc, {base!r}, {tags!r}, fields, {cexpr!r}, S, {src!r}, {mode!r})",
            "for fp, vs in acc.violations.items(): print(fp); print('  ', vs[0].summary)",
            "sys.exit(1 if acc.violations else 0)"]) + "\n"
        acc.violation(fp, f"{base} [{', '.join(tags)}] Options({cexpr}): {msg}", script)

    docs = {}
    for view, out in (("input", False), ("output", True)):
        acc.states += 1
        acc.transitions += 1
        st, doc = call_guarded(lambda: JsonSchemaGenerator(cls, output=out, mode=mode)(), wall_s=2.0)
        if st != "ok":
            viol(f"generate-{type(doc).__name__}", f"generating the {view} schema raised {short(doc, 100)}", view)
            continue
        bad = check_document(doc)
        acc.evaluations += 1
        if bad:
            viol(bad[0], f"{view} schema: {bad[1]}", view)
            continue
        docs[view] = doc
    if "input" not in docs:
        return
    doc = docs["input"]
    props = doc.get("properties", {})
    # ---- observed behaviour
    base_data = {}
    for f in fields:
        base_data[f.name] = VALID      # attribute names are always recognised; no_input ones are ignored
    st0, inst0 = _observe(cls, base_data)
    acc.transitions += 1
    if st0 != "ok":
        # a dependency / mode corner: structure is only compared when the all-fields input is accepted
        acc.extra["structure_not_compared:all-fields input rejected"] += 1
        return
    for trig, deps_ in (doc.get("dependentRequired") or {}).items():
        for dname_ in [trig] + list(deps_):
            if dname_ not in props:
                viol("dependent-required-unknown-name", f"dependentRequired mentions {dname_!r}, which is not a listed property "
                                                        f"({sorted(props)})")
    listed = {}
    for pname, pdoc in props.items():
        listed[pname] = pname
        for al in pdoc.get("x-aliases", []) or []:
            listed[al] = pname
    ci_cls = "case_insensitive=True" in cexpr
    for f in fields:
        others = {g.name: VALID for g in fields if g is not f}
        for key in f.spellings():
            acc.states += 1
            acc.transitions += 1
            st, inst = _observe(cls, dict(others, **{key: 5}))
            if st != "ok":
                continue
            got = _attr(inst, f.name)
            accepted = got == 5
            acc.evaluations += 1
            acc.nontrivial_add((shape, key))
            ci = f.fd.ci if f.fd.ci is not None else ci_cls
            in_doc = (key in listed) or (ci and key.lower() in {k.lower() for k in listed})
            if accepted and not in_doc:
                viol(f"input-name-missing-{f.fd.tag}", f"the key {key!r} is accepted as input for field {f.name} but the input schema lists "
                                                       f"only {sorted(listed)}")
            elif not accepted and in_doc and not f.fd.no_input and not (f.fd.mode and mode and mode not in f.fd.mode):
                viol(f"listed-name-not-accepted-{f.fd.tag}", f"the input schema lists {key!r} but feeding it does not set field {f.name} "
                                                            f"(got {got!r})")
            elif not accepted and in_doc:
                viol(f"no-input-field-listed-{f.fd.tag}", f"field {f.name} takes no input in this mode but the input schema lists {key!r}")
        # required (not observable when another field depends on this one: omitting it trips the dependency)
        if any(f.name in g.deps for g in fields):
            acc.extra["required_not_compared:dependency target"] += 1
            continue
        acc.transitions += 1
        st, inst = _observe(cls, others)
        is_req = st == "err"
        out_name = f.out
        doc_req = out_name in (doc.get("required") or []) or f.name in (doc.get("required") or [])
        acc.evaluations += 1
        if is_req != doc_req:
            viol(f"required-{'missing' if is_req else 'spurious'}-{f.fd.tag}",
                 f"omitting field {f.name} is {'an error' if is_req else 'accepted'} but 'required' is {doc.get('required')}")
    # additionalProperties
    acc.transitions += 2
    st, inst = _observe(cls, dict(base_data, zz="7"))
    if st == "err":
        fate = False
    else:
        v = _extra(inst, "zz")
        fate = "absent" if v is _MISSING else (True if v == "7" else "converted")
    ap = doc.get("additionalProperties", "absent")
    want = {False: False, True: True, "absent": "absent"}.get(fate, "schema") if fate != "converted" else "schema"
    have = ap if ap in (True, False, "absent") else "schema"
    acc.evaluations += 1
    if want != have:
        viol(f"additional-properties-{have}-vs-{want}", f"an unknown key is {fate if fate != 'absent' else 'dropped'} by the parser but "
                                                        f"additionalProperties is {ap!r}")
    # ---- (b) produced instances validate against the output schema
    if "output" in docs and isinstance(inst0, dict):
        validator = jsonschema.Draft202012Validator(docs["output"])
        for data in _instances(fields):
            st, inst = _observe(cls, data)
            acc.transitions += 1
            if st != "ok":
                continue
            try:
                enc = encode(inst)
            except Exception as e:
                viol("instance-not-encodable", f"instance {short(inst, 60)} cannot be JSON-encoded: {short(e, 60)}", "output")
                continue
            errs = sorted(validator.iter_errors(enc), key=lambda e: e.message)
            acc.evaluations += 1
            acc.nontrivial_add((shape, json.dumps(data, sort_keys=True)))
            if errs:
                viol("instance-violates-" + ",".join(sorted({str(e.validator) for e in errs})),
                     f"input {data} gives {json.dumps(enc)} which the output schema rejects: {errs[0].message[:100]}", "output")
    if acc.evaluations % 5 == 0:
        acc.sample(dict(cls=shape, input_schema=doc))


_MISSING = object()


def _attr(inst, name):
    try:
        return getattr(inst, name)
    except AttributeError:
        return _MISSING


def _extra(inst, key):
    if isinstance(inst, dict):
        return dict.get(inst, key, _MISSING)
    return inst.__dict__.get(key, _MISSING)


def _instances(fields):
    names = [f.name for f in fields]
    for r in range(0, len(names) + 1):
        for sub in itertools.combinations(names, r):
            for v in (1, "2"):
                yield {n: v for n in sub}


# ------------------------------------------------------------------------------------------------ programs with $defs

PROGRAMS = {
    "recursive": ("class Node(Schema):\n    v: int\n    kids: List['Node'] = Field(default_factory=list)\n", "Node",
                  [{"v": 1}, {"v": 1, "kids": [{"v": "2"}, {"v": 3, "kids": [{"v": 4}]}]}]),
    "nested": ("class Inner(Schema):\n    w: PositiveInt\n    tag: Optional[str] = None\n"
               "class Outer(Schema):\n    inner: Inner\n    many: Dict[str, Inner] = Field(default_factory=dict)\n"
               "    either: Union[Inner, int] = 0\n", "Outer",
               [{"inner": {"w": 1}}, {"inner": {"w": "2", "tag": "t"}, "many": {"k": {"w": 3}}, "either": {"w": 4}}, {"inner": {"w": 1}, "either": "5"}]),
    "mutual": ("class A(Schema):\n    b: Optional['B'] = None\n    n: int = 0\nclass B(Schema):\n    a: Optional[A] = None\n    s: str = ''\n",
               "A", [{}, {"b": {"a": {"n": "1"}, "s": "x"}}]),
    "same-name-two-scopes": ("def mk1():\n    class Item(Schema):\n        a: int\n    return Item\n"
                             "def mk2():\n    class Item(Schema):\n        b: str\n        c: int = 0\n    return Item\n"
                             "I1 = mk1()\nI2 = mk2()\n"
                             "class Order(Schema):\n    first: I1\n    second: I2\n    more: List[I2] = Field(default_factory=list)\n",
                             "Order", [{"first": {"a": 1}, "second": {"b": "x"}}, {"first": {"a": "2"}, "second": {"b": "y", "c": 3},
                                                                                      "more": [{"b": "z"}]}]),
    # properties: the output view describes what the getter publishes, the input view what the setter accepts
    "property-setter-getter": ("class Order(Schema):\n    price: float\n    _qty: int = 0\n"
                               "    @property\n    def qty(self) -> str:\n        return f'{self._qty} pcs'\n"
                               "    @qty.setter\n    def qty(self, value: int):\n        self._qty = value\n", "Order",
                               [{"price": 1.5, "qty": 2}, {"price": "9.5", "qty": "3"}]),
    "property-getter-only": ("class Box(Schema):\n    w: int\n    h: int = 1\n"
                             "    @property\n    def area(self) -> PositiveInt:\n        return self.w * self.h\n"
                             "    @property\n    @Field(dependencies=['w'], alias='label')\n    def text(self) -> str:\n        return 'w' * self.w\n",
                             "Box", [{"w": 2}, {"w": "3", "h": 2}]),
    "property-list-getter": ("class Bag(Schema):\n    n: int = 2\n"
                             "    @property\n    def items_(self) -> List[str]:\n        return ['x'] * self.n\n"
                             "    @items_.setter\n    def items_(self, value: Dict[str, int]):\n        self.n = len(value)\n", "Bag",
                             [{"items_": {"a": 1}}, {"n": 1, "items_": {"a": 1, "b": 2, "c": 3}}]),
    "constrained-ref": ("class Code(str, Rule):\n    regex = '[A-Z]{2}'\n"
                        "class Item(Schema):\n    code: Code\n    codes: List[Code] = Field(default_factory=list)\n    price: Decimal = Field(ge=0, decimal_places=2, default=0)\n",
                        "Item", [{"code": "AB"}, {"code": "AB", "codes": ["CD", "EF"], "price": "1.50"}]),
}


def _programs(acc):
    import sys
    import types
    for pname, (src, root, datas) in PROGRAMS.items():
        mod = types.ModuleType(f"utmc_c13_{pname}")
        mod.__dict__.update(_NS)
        mod.__dict__["__name__"] = mod.__name__
        sys.modules[mod.__name__] = mod
        exec(src, mod.__dict__)
        cls = mod.__dict__[root]
        for view, out in (("input", False), ("output", True)):
            acc.states += 1
            acc.transitions += 1
            defs = {}
            try:
                gen = JsonSchemaGenerator(cls, defs=defs, output=out)
                ref = gen()
                doc = dict(ref)
                doc["$defs"] = gen.get_defs()
            except Exception as e:
                acc.violation(f"C13|program|{pname}|{view}|generate-{type(e).__name__}",
                              f"program {pname}: generating the {view} schema with $defs raised {type(e).__name__}: {short(e, 100)}",
                              _prog_script(src, root, out, None))
                continue
            bad = check_document(doc)
            acc.evaluations += 1
            if bad:
                acc.violation(f"C13|program|{pname}|{view}|{bad[0]}", f"program {pname} {view} schema: {bad[1]}",
                              _prog_script(src, root, out, None))
                continue
            if not out:
                continue
            validator = jsonschema.Draft202012Validator(doc)
            for data in datas:
                acc.states += 1
                acc.transitions += 1
                try:
                    inst = cls.__from__(data)
                except Exception as e:
                    raise RuntimeError(f"harness error: program {pname} rejects its own sample {data}: {e}")
                enc = encode(inst)
                errs = sorted(validator.iter_errors(enc), key=lambda e: e.message)
                acc.evaluations += 1
                acc.nontrivial_add((pname, json.dumps(data, sort_keys=True)))
                if errs:
                    acc.violation(f"C13|program|{pname}|output|instance-violates-" + ",".join(sorted({str(e.validator) for e in errs})),
                                  f"program {pname}: {data} gives {json.dumps(enc)[:120]} which the output schema rejects: "
                                  f"{errs[0].message[:100]}", _prog_script(src, root, out, data))
                acc.sample(dict(program=pname, data=data, schema_keys=sorted(doc.get("$defs", {}))))


def _prog_script(src, root, out, data):
    return "\n".join([
        "import sys, json", "sys.path.insert(0, '/verif'); sys.path.append('/verif/.deps')", "from utmc.ns import *",
        "import jsonschema", "from utype.specs.json_schema.generator import JsonSchemaGenerator",
        "from utype.utils.encode import JSONEncoder", src, "defs = {}",
        f"gen = JsonSchemaGenerator({root}, defs=defs, output={out!r}); doc = dict(gen()); doc['$defs'] = gen.get_defs()",
        "print(json.dumps(doc, indent=1, default=repr))", "jsonschema.Draft202012Validator.check_schema(doc)",
        (f"enc = json.loads(json.dumps({root}.__from__({data!r}), cls=JSONEncoder)); print(enc)\n"
         "errs = list(jsonschema.Draft202012Validator(doc).iter_errors(enc)); print([e.message for e in errs]); sys.exit(1 if errs else 0)")
        if data is not None else "sys.exit(0)"]) + "\n"
