"""C03 — parsing is idempotent; lax constraints converge in one step.

E1 with 2-transition chains: y = parse(x); z = parse(y) under the same declaration/options: z must exist and
equal y. For lax constraints on exact domains y must also satisfy the strict form (reference semantics).
"""
from ..core import Acc, bootstrap

bootstrap()
from .. import e1, spec as S, typegram as tg   # noqa: E402
from ..universe import all_atoms, ev  # noqa: E402
from ..canon import canon, short  # noqa: E402
from ..refcons import ref_constraint  # noqa: E402
from .. import inputs as I  # noqa: E402
from . import c02  # noqa: E402

ID = "C03"
LEVEL = "model_checking"
RULE = ("C01's declaration x form x options x input product restricted to successful first parses, plus every lax "
        "(constraint, bound) of the lax table on the C02 value windows and convertible inputs; each state is a "
        "(declaration, options, input) triple, two transitions (parse, re-parse) per state; non-trivial when the first "
        "parse changed the value (canon(y) != canon(x))")
ASSUMPTIONS = [
    "equality is canon(): type-tagged, NaN-reflexive, set-order-insensitive, Decimals compared by value",
    "strict form of a lax constraint is judged by refcons.ref_constraint, only on exact domains (int, Decimal, str, bytes, "
    "sequences) as the statement says",
    "data classes are re-parsed both as instances and, when no field is no_input/no_output, as dict(y)",
]

OPTSETS = [
    {},
    {"no_explicit_cast": True},
    {"no_data_loss": True},
    {"no_explicit_cast": True, "no_data_loss": True},
    {"collect_errors": True},
    {"invalid_items": "exclude", "invalid_keys": "exclude", "invalid_values": "exclude"},
    # instances of exactly the declared class only: a result (an instance) is still taken as it is
    {"allow_subclasses": False},
]
QUICK_OPTS = [0, 2, 5, 6]
EXACT = ("int", "Decimal", "str", "bytes", "list", "tuple", "MyInt", "MyStr")


def spec_universe(tier):
    specs = tg.lax_specs(routes=("cls", "ann") if tier == "thorough" else ("cls",))
    specs += tg.leaf_specs()
    specs += tg.mixed_specs(routes=("cls", "ann") if tier == "thorough" else ("cls",))
    specs += tg.constrained_specs(routes=("cls",))
    specs += tg.literal_specs()
    specs += tg.SHIPPED
    specs += tg.generic_specs(depth=2 if tier == "thorough" else 1,
                              elems=None if tier == "thorough" else tg.REP_ELEMS_Q)
    if tier == "thorough":
        specs += tg.logical_specs(arities=(2,))
        specs += tg.logical_specs(leaves=tg.LOGIC_LEAVES[:6], arities=(3,), with_not=False)
    else:
        specs += tg.logical_specs(leaves=tg.LOGIC_LEAVES[:9])
    specs += tg.dataclass_specs()
    # containers of data-class instances (the result holds instances, which the second parse meets as elements)
    for base in ("Schema", "DataClass"):
        dc = ("dc", base, (("a", ("t", "int"), None),), None)
        specs += [("g", "List", (dc,)), ("g", "TupleVar", (dc,)), ("g", "Dict", (("t", "str"), dc)), ("g", "Optional", (dc,))]
    return specs


def forms_for(spec, tier):
    if spec[0] == "dc":
        return ["tt", "dcfrom"]
    f = ["tt"]
    if tier == "thorough":
        f += ["field", "param"]
    return f


def bounds(tier):
    return dict(declarations=len(spec_universe(tier)), atoms=len(all_atoms()),
                option_sets=len(OPTSETS) if tier == "thorough" else len(QUICK_OPTS))


CHUNK = 6


def shards(tier):
    n = len(spec_universe(tier))
    return [("specs", i, min(i + CHUNK, n)) for i in range(0, n, CHUNK)]


def is_lax(sp):
    return sp[0] == "r" and any(b.startswith("Lax(") for _, b in sp[2])


def run_shard(shard, tier):
    _, lo, hi = shard
    allspecs = spec_universe(tier)[lo:hi]
    acc = Acc()
    atoms = all_atoms()
    optidx = range(len(OPTSETS)) if tier == "thorough" else QUICK_OPTS
    for sp in allspecs:
        vals = atoms + I.directed_inputs(sp, k=3 if tier == "thorough" else 2)
        if is_lax(sp) and sp[1] in c02.ORIGINS:
            vals = vals + c02.windows(sp[1], tuple((c, b[4:-1]) for c, b in sp[2]))
        seen_v = set()
        vals = [v for v in vals if not (v in seen_v or seen_v.add(v))]
        for form in forms_for(sp, tier):
            for oi in optidx:
                opts = OPTSETS[oi]
                if form in ("call", "dccall") and opts:
                    continue
                try:
                    fn, _, call_code = e1.caller(sp, form, opts)
                except Exception:
                    acc.extra["declarations_rejected_at_build"] += 1
                    continue
                for vx in vals:
                    kind, y = e1.run_case(sp, form, opts, vx)
                    acc.states += 1
                    acc.transitions += 1
                    acc.outcomes["first:" + kind] += 1
                    if kind != "value":
                        continue
                    ys = e1.unwrap(form, y)
                    if not ys:
                        continue
                    y0 = ys[0]
                    try:
                        cy = canon(y0)
                    except Exception:
                        continue
                    reparse_inputs = [("same", y0)] if form != "dcfrom" else []
                    if sp[0] == "dc":
                        if isinstance(y0, dict):
                            reparse_inputs.append(("dict", dict(y0)))
                        else:
                            reparse_inputs.append(("dict", {k: v for k, v in y0.__dict__.items() if not k.startswith("__")}))
                    for how, yin in reparse_inputs:
                        st, z = e1.call_guarded(lambda: fn(yin), wall_s=1.0, step_budget=400_000)
                        acc.transitions += 1
                        acc.evaluations += 1
                        if st != "ok":
                            acc.outcomes["second:" + ("perr" if isinstance(z, e1.ParseError) else "other")] += 1
                            fp = (f"C03|{S.shape(sp)}|{form}|reparse-fails-{how}:{_errkind(z)}{_logic_class(sp, opts, vx, y0)}"
                                  f"|{_vs(vx)}|{_optkey(opts)}")
                            acc.violation(fp, f"{S.type_expr(sp)} form={form} opts={opts}: input {vx} parses to {short(y0, 60)} "
                                              f"but re-parsing that result ({how}) fails: {short(z, 100)}",
                                          _script(sp, form, opts, vx, how))
                            continue
                        zs = e1.unwrap(form, z)
                        cz = canon(zs[0]) if zs else ("missing",)
                        acc.outcomes["second:value"] += 1
                        if cz != cy and not _py_equal(zs[0] if zs else None, y0):
                            fp = (f"C03|{S.shape(sp)}|{form}|not-idempotent-{how}{_drift_class(sp, y0, zs[0] if zs else None, opts, vx)}"
                                  f"|{_vs(vx)}|{_optkey(opts)}")
                            acc.violation(fp, f"{S.type_expr(sp)} form={form} opts={opts}: {vx} -> {short(y0, 60)} -> "
                                              f"{short(zs[0] if zs else None, 60)} (second parse changed the value)",
                                          _script(sp, form, opts, vx, how))
                    try:
                        if canon(ev(vx)) != cy:
                            acc.nontrivial_add((sp, form, oi, vx))
                    except Exception:
                        acc.nontrivial_add((sp, form, oi, vx))
                    # lax constraints on exact domains: the strict form must accept the output
                    if is_lax(sp) and y0 is not None and (sp[1] in EXACT or (
                            sp[1] is None and all(c in ("const", "enum") for c, _ in sp[2]))):
                        for c, b in sp[2]:
                            if not b.startswith("Lax("):
                                continue
                            bound = ev(b[4:-1])
                            if _nonfinite(y0):
                                continue      # NaN / infinity: no documented digit count, multiple or rounding
                            r = ref_constraint(c, bound, y0)
                            acc.evaluations += 1
                            if r is False:
                                fp = f"C03|{S.shape(sp)}|{form}|lax-output-fails-strict-{c}|{_vs(vx)}|{_optkey(opts)}"
                                acc.violation(fp, f"{S.type_expr(sp)}: {vx} -> {short(y0, 60)} which violates the strict form "
                                                  f"of {c}={b[4:-1]}",
                                              _script(sp, form, opts, vx, "same", strict=(c, b[4:-1])))
                    if acc.states % 1999 == 0:
                        acc.sample(dict(decl=S.type_expr(sp), form=form, options=opts, input=vx, first=short(y0, 50)))
        e1.reset_callers()
    return acc


def _accepts(arm, opts, value):
    try:
        fn, _, _ = e1.caller(arm, "tt", opts)
        st, r = e1.call_guarded(lambda: fn(value), wall_s=1.0, step_budget=400_000)
        return st == "ok", r
    except Exception:
        return False, None


def _logic_class(sp, opts, vx, y):
    """Sub-classification of a failing re-parse of a top-level ^ / & type, with the arguments as black boxes.
    ^ : P = first argument that accepts the input; the output is accepted by P and by another argument that comes
        *earlier* (its turn was over before the value was converted) or *later* than P.
    & : the output is rejected by an argument *before the last* (the documented sequential semantics) or by the last."""
    if sp[0] != "op" or sp[1] not in "^&":
        return ""
    args = sp[2]
    try:
        if sp[1] == "^":
            first = None
            for i, a in enumerate(args):
                ok, _ = _accepts(a, opts, ev(vx))
                if ok:
                    first = i
                    break
            if first is None:
                return "@xor-no-argument-accepts-input"
            others = [i for i, a in enumerate(args) if i != first and _accepts(a, opts, y)[0]]
            if any(i > first for i in others):
                return "@xor-later-argument-accepts-output"
            if others:
                return "@xor-earlier-argument-accepts-output"
            return "@xor-output-accepted-once"
        rej = [i for i, a in enumerate(args) if not _accepts(a, opts, y)[0]]
        if rej and rej[-1] == len(args) - 1:
            return "@and-last-argument-rejects-output"
        if rej:
            return "@and-earlier-argument-rejects-output"
        # every argument accepts the output on its own, the chain of conversions does not
        return "@and-chain-rejects-output"
    except Exception as e:      # classification must never break the run
        return f"@unclassified-{type(e).__name__}"


def _drift_class(sp, y, z, opts, vx):
    """second parse succeeded with a different value: sub-classification for top-level | ^ & types"""
    if sp[0] == "op" and sp[1] == "^":
        return _logic_class(sp, opts, vx, y)
    if sp[0] == "op" and sp[1] == "&":
        # the chain of conversions is applied again to the output of its last argument
        return "@and-chain-reconverts-output"
    args = None
    if sp[0] == "op" and sp[1] == "|":
        args = sp[2]
    elif sp[0] == "g" and sp[1] in ("Union", "Optional"):
        args = sp[2] if sp[1] == "Union" else (sp[2][0], ("t", "NoneType"))
    if not args:
        return ""
    try:
        # the output is an exact instance of a plain-class argument: the documented exact-type pass-through must
        # return it unchanged, whatever the other arguments would do with it
        if any(a[0] == "t" and a[1] not in ("Any",) and type(y) is S._leaf_class(a[1]) for a in args):
            return "@union-exact-instance-changed"
        prod = [i for i, a in enumerate(args) if S.conforms(a, y)]
        capt = [i for i, a in enumerate(args) if S.conforms(a, z)]
        if prod and capt and capt[0] < prod[0]:
            # the recorded design-level drift: an earlier argument takes the output in the union's *strict* stage
            # (constrained types are not recognised by the exact-type shortcut).  An earlier argument that can take
            # the output only leniently (with data loss or an explicit cast) must never win over the producer
            strict = dict(opts or {}, no_data_loss=True, no_explicit_cast=True)
            if any(_accepts(args[i], strict, y)[0] for i in range(prod[0])):
                return "@union-earlier-argument-converts-output"
            return "@union-earlier-argument-converts-output-only-leniently"
        return "@union-other"
    except Exception as e:
        return f"@unclassified-{type(e).__name__}"


def _nonfinite(v):
    import math
    from decimal import Decimal
    if isinstance(v, float):
        return math.isnan(v) or math.isinf(v)
    if isinstance(v, Decimal):
        return not v.is_finite()
    return False


def _errkind(e):
    errs = getattr(e, "errors", None)
    if errs:
        return type(errs[0]).__name__
    return type(e).__name__


def _py_equal(a, b):
    """Python equality, NaN-reflexive: the statement asks for 'an equal value' (1 == 1.0 == True)"""
    try:
        if a == b:
            return True
    except Exception:
        return False
    try:
        return a != a and b != b
    except Exception:
        return False


def _vs(vx):
    try:
        return e1.value_shape(ev(vx))
    except Exception:
        return "?"


def _optkey(opts):
    return ",".join(sorted(k for k, v in opts.items() if v)) or "default"


def _script(sp, form, opts, vx, how, strict=None):
    _, setup, call_code = e1.caller(sp, form, opts)
    lines = ["import sys", "sys.path.insert(0, '/verif')", "from utmc.ns import *", "from utmc.canon import canon",
             "from utmc import e1", "from utmc.refcons import ref_constraint", setup, f"x = {vx}",
             f"y = {call_code}", f"y0 = e1.unwrap({form!r}, y)[0]", "print('first parse ->', repr(y0)[:200])"]
    if how == "dict":
        lines.append("yin = dict(y0) if isinstance(y0, dict) else {k: v for k, v in y0.__dict__.items() if not k.startswith('__')}")
    else:
        lines.append("yin = y0")
    lines += ["bad = False", "try:", f"    z = (lambda x: {call_code})(yin)", f"    z0 = e1.unwrap({form!r}, z)[0]",
              "    print('second parse ->', repr(z0)[:200])", "    bad = canon(z0) != canon(y0) and not (z0 == y0)",
              "except Exception as e:", "    print('second parse fails:', type(e).__name__, e); bad = True"]
    if strict:
        lines.append(f"r = ref_constraint({strict[0]!r}, {strict[1]}, y0); print('strict {strict[0]} holds on output:', r)")
        lines.append("bad = bad or r is False")
    lines.append("sys.exit(1 if bad else 0)")
    return "\n".join(lines) + "\n"
