"""C07 — data-class instances stay valid under every sequence of mutations.

E2: breadth-first exploration of operation histories on live instances of a Schema (dict based) and a DataClass
(attribute based) class.  A state is the event history reaching it (instances are rebuilt by replaying the history on a
fresh object); states are deduplicated by the canonical form of the two mappings that make up the whole instance
(dict items and __dict__).  The invariant is evaluated after every transition.
"""
import collections
import itertools

from ..core import Acc, bootstrap

bootstrap()
from ..universe import _NS           # noqa: E402
from ..canon import short, canon     # noqa: E402

ID = "C07"
LEVEL = "model_checking"
RULE = ("explicit-state BFS over histories of public mutating operations (setattr, item assignment, update, setdefault, "
        "|=, delattr, del item, pop, popitem, clear, copy-then-mutate, and 11 multi-key update / |= calls with mappings and "
        "with other instances of the class as argument) on instances built by keyword, by __from__ and as a nested field, "
        "x every key spelling (attribute, alias, alias_from, "
        "unknown) x {valid, convertible, invalid} values, on instances of a Schema and a DataClass with required / "
        "defaulted+constrained / optional / immutable / aliased / no_output / property fields under 6 class option sets; "
        "state = canon(dict items) + canon(__dict__), transition = one operation; a transition is non-trivial when it "
        "raised or changed the state")
ASSUMPTIONS = [
    "state canonicalisation is sound: dict items and __dict__ are the only per-instance storage in utype/schema.py "
    "and utype/parser/cls.py (the __options__ attribute of Schema instances lives in __dict__ and is dropped: it is "
    "the same object for every state of one class)",
    "the invariant is the statement's, evaluated with hand-written per-field predicates (name: str of length <= 5; "
    "age: int >= 0; tag: str; uid: int equal to its initial value; nickName: str; secret: str and never a key; "
    "label == name.upper())",
    "multi-key update() / |= calls are judged by the invariant alone (the raise-and-unchanged clause of the statement "
    "speaks of single-key operations)",
]

OPTION_SETS = ["", "addition=True", "addition=int", "immutable=True", "ignore_delete_nonexistent=True",
               "collect_errors=True", "collect_errors=True, addition=int", "collect_errors=True, addition=False"]

SRC = '''
class {name}({base}):
{options}
    name: str = Field(max_length=5)
    age: int = Field(ge=0, default=0)
    tag: str = Field(required=False)
    uid: int = Field(immutable=True, default=1)
    nick: str = Field(alias='nickName', alias_from=['nn'], required=False)
    secret: str = Field(no_output=True, default='s')
    fin: typing.Final[int] = Field(ge=1, default=4)

    @property
    @Field(dependencies=['name'])
    def label(self) -> str:
        return self.name.upper()

    @property
    @Field(dependencies=['secret'])
    def hint(self) -> str:
        return self.secret[:1]

    @property
    @Field(dependencies=['age'], no_output=lambda v: v < 3, le=7)
    def bonus(self) -> int:
        return self.age * 2
'''

# key spellings
FIELDS = {  # attribute -> (output name, spellings, values [(expr, kind)])
    "name": ("name", ["name"], [("'bob'", "valid"), ("5", "conv"), ("'toolong'", "invalid"), ("None", "invalid")]),
    "age": ("age", ["age"], [("3", "valid"), ("'4'", "conv"), ("1", "valid"), ("-1", "invalid"), ("'x'", "invalid")]),
    "tag": ("tag", ["tag"], [("'t'", "valid"), ("7", "conv")]),
    "uid": ("uid", ["uid"], [("2", "valid"), ("1", "valid")]),
    "nick": ("nickName", ["nick", "nickName", "nn"], [("'n'", "valid"), ("8", "conv")]),
    "secret": ("secret", ["secret"], [("'k'", "valid"), ("9", "conv")]),
    "label": ("label", ["label"], [("'AL'", "valid")]),
    "fin": ("fin", ["fin"], [("6", "valid"), ("4", "valid")]),
    "hint": ("hint", ["hint"], [("'z'", "valid")]),
    "bonus": ("bonus", ["bonus"], [("9", "valid")]),
}
UNKNOWN = ("zz", [("1", "valid"), ("'5'", "conv"), ("'x'", "other")])
# how the instance under mutation came to be: keyword construction, __from__ (leaves a parse context on the instance),
# or parsed as a nested field of another data class
INIT = ["S(name='al')", "S(name='al', age=2, tag='g', nn='m', secret='q')",
        "S.__from__(dict(name='al', age='2', tag='g'))", "H(inner=dict(name='al', nn='m')).inner",
        # runtime options that differ from the class options stay with the instance (and its copies)
        "S.__from__(dict(name='al', age=2), options=Options(immutable=True))"]
HOLDER = "\nclass H(Schema):\n    inner: S\n"
# multi-key mutators (Schema only): judged by the invariant alone -- the statement's raise-and-unchanged clause speaks of
# single-key operations
MULTI = [
    "s.update(S(name='zed', uid=7))", "s.update(S(name='zed'))", "s |= S(name='zed', uid=7)", "s |= S(name='zed', age=9)",
    "s.update({'name': 'zed', 'age': -1})", "s.update({'age': 3, 'uid': 9})", "s.update(name='zed', uid=7)",
    "s.update({'age': '6', 'name': 'toolong'})", "o = S(name='zed'); o.pop('label', None); s.update(o)",
    "o = S(name='zed', age=9).copy(); s.update(o)", "s.update(H(inner=dict(name='kim', tag='w')).inner)",
]


# ------------------------------------------------------------------------------------------------ second class model
# B: inheritance and key case.  A base class declares the required and the immutable field (its name is not all
# lower-case); the subclass under test adds one field and carries the options (case_insensitive / immutable).
SRC_B = '''
class Base({base}):
    name: str = Field(max_length=5)
    userId: int = Field(immutable=True, default=1)
class {name}(Base):
{options}
    extra: int = Field(ge=0, default=0)
    ownId: int = Field(immutable=True, default=2)
'''
FIELDS_B = {
    "ownId": ("ownId", ["ownId", "ownid"], [("3", "valid"), ("2", "valid")]),
    "name": ("name", ["name", "NAME"], [("'bob'", "valid"), ("5", "conv"), ("'toolong'", "invalid")]),
    "userId": ("userId", ["userId", "userid", "USERID"], [("2", "valid"), ("1", "valid")]),
    "extra": ("extra", ["extra", "Extra"], [("3", "valid"), ("'4'", "conv"), ("-1", "invalid")]),
}
OPTION_SETS_B = ["", "case_insensitive=True", "immutable=True", "case_insensitive=True, addition=True"]
INIT_B = ["S(name='al')", "S(name='al', extra=2)"]
MULTI_B = ["s.update(S(name='zed', userId=7))", "s.update({'name': 'zed', 'extra': -1})", "s.update(S(name='zed', extra=5))"]
PRED_B = {"name": lambda v: type(v) is str and len(v) <= 5, "userId": lambda v: type(v) is int, "ownId": lambda v: type(v) is int,
          "extra": lambda v: type(v) is int and v >= 0}
# C: every visible field is optional and mutable; an immutable and a required field are hidden (no_output), they live in
# the attribute view only
SRC_C = '''
class {name}({base}):
{options}
    tag: str = Field(required=False)
    cnt: int = Field(required=False)
    n: int = Field(ge=0, default=0)
    pin: int = Field(immutable=True, no_output=True, default=9)
    key: str = Field(no_output=True)
'''
FIELDS_C = {
    "tag": ("tag", ["tag"], [("'t'", "valid"), ("7", "conv")]),
    "n": ("n", ["n"], [("3", "valid"), ("'4'", "conv"), ("-1", "invalid")]),
    # optional and without a default: under an exclude policy an invalid assignment has nothing to fall back to
    "cnt": ("cnt", ["cnt"], [("6", "valid"), ("'x'", "invalid")]),
    "pin": ("pin", ["pin"], [("8", "valid"), ("9", "valid")]),
    "key": ("key", ["key"], [("'k'", "valid"), ("5", "conv")]),
}
OPTION_SETS_C = ["", "addition=True", "ignore_delete_nonexistent=True", "invalid_values='exclude'"]
INIT_C = ["S(key='q')", "S(key='q', tag='g', n=2)"]
MULTI_C = ["s.update({'tag': 'u', 'n': 5})", "s.update(S(key='z', tag='w'))"]
PRED_C = {"tag": lambda v: type(v) is str, "cnt": lambda v: type(v) is int, "n": lambda v: type(v) is int and v >= 0, "pin": lambda v: type(v) is int,
          "key": lambda v: type(v) is str}
MODELS = {}
_CUR_MODEL = ["A"]


def use_model(m):
    """switch the module-level tables (one shard = one model, shards run one after the other in a worker)"""
    global SRC, FIELDS, OPTION_SETS, INIT, MULTI, PRED, HOLDER
    if not MODELS:
        MODELS["A"] = dict(SRC=SRC, FIELDS=FIELDS, OPTION_SETS=OPTION_SETS, INIT=INIT, MULTI=MULTI, PRED=PRED, HOLDER=HOLDER)
        MODELS["B"] = dict(SRC=SRC_B, FIELDS=FIELDS_B, OPTION_SETS=OPTION_SETS_B, INIT=INIT_B, MULTI=MULTI_B, PRED=PRED_B, HOLDER="")
        MODELS["C"] = dict(SRC=SRC_C, FIELDS=FIELDS_C, OPTION_SETS=OPTION_SETS_C, INIT=INIT_C, MULTI=MULTI_C, PRED=PRED_C, HOLDER="")
    t = MODELS[m]
    SRC, FIELDS, OPTION_SETS, INIT, MULTI, PRED, HOLDER = (t["SRC"], t["FIELDS"], t["OPTION_SETS"], t["INIT"], t["MULTI"],
                                                           t["PRED"], t["HOLDER"])
    _CUR_MODEL[0] = m


def invariant_c(cls, inst, opt_expr, uid0, base):
    bad = []
    d, a = snapshot(inst)
    if not isinstance(inst, cls):
        return [("type-lost", f"the instance is now a {type(inst).__name__}")]
    for k, v in d.items():
        if k in ("pin", "key"):
            bad.append(("no-output-key", f"no_output field {k!r} appears in the mapping"))
        elif k in PRED_C:
            if not PRED_C[k](v):
                bad.append((f"unparsed-{k}", f"{k!r} holds {v!r}, which does not conform to its declaration"))
        elif "addition=True" not in opt_expr:
            bad.append(("stray-key", f"extra key {k!r} present although addition is not enabled"))
    # the hidden fields live in the attribute view
    if a.get("pin", _ABSENT) is _ABSENT:
        bad.append(("immutable-removed", "the hidden immutable field pin lost its value"))
    elif a["pin"] != 9:
        bad.append(("immutable-changed", f"pin is {a['pin']!r}, initially 9"))
    if a.get("key", _ABSENT) is _ABSENT:
        bad.append(("required-missing", "the hidden required field key is gone"))
    elif type(a["key"]) is not str:
        bad.append(("unparsed-key", f"key holds {a['key']!r}"))
    return bad


def invariant_b(cls, inst, opt_expr, uid0, base):
    bad = []
    schema = base == "Schema"
    d, a = snapshot(inst)
    view = d if schema else a
    if not isinstance(inst, cls):
        return [("type-lost", f"the instance is now a {type(inst).__name__}")]
    for k, v in view.items():
        if k in PRED_B:
            if not PRED_B[k](v):
                bad.append((f"unparsed-{k}", f"{k!r} holds {v!r}, which does not conform to its declaration"))
        elif schema and k.lower() in ("name", "userid", "extra", "ownid"):
            bad.append(("alias-as-key", f"the case variant {k!r} is stored as a key of its own"))
        elif schema and "addition=True" not in opt_expr:
            bad.append(("stray-key", f"extra key {k!r} present although addition is not enabled"))
    if "name" not in view:
        bad.append(("required-missing", "required field 'name' is gone"))
    if "userId" not in view:
        bad.append(("immutable-removed", "immutable field userId was removed from the instance"))
    elif view["userId"] != uid0:
        bad.append(("immutable-changed", f"userId is {view['userId']!r}, initially {uid0!r}"))
    if "ownId" not in view:
        bad.append(("immutable-removed", "immutable field ownId (declared in the class itself) was removed from the instance"))
    elif view["ownId"] != 2:
        bad.append(("immutable-changed", f"ownId is {view['ownId']!r}, initially 2"))
    return bad


def operations(base, tier):
    """-> list of (label, python statement template over the instance variable s)"""
    ops = []
    schema = base == "Schema"
    for attr, (out, spellings, values) in FIELDS.items():
        for vx, kind in values:
            ops.append((f"s.{attr} = {vx}", f"s.{attr} = {vx}"))
            if schema:
                for sp in spellings:
                    ops.append((f"s[{sp!r}] = {vx}", f"s[{sp!r}] = {vx}"))
                    ops.append((f"s.update({{{sp!r}: {vx}}})", f"s.update({{{sp!r}: {vx}}})"))
                    ops.append((f"s.setdefault({sp!r}, {vx})", f"s.setdefault({sp!r}, {vx})"))
                    ops.append((f"s |= {{{sp!r}: {vx}}}", f"s |= {{{sp!r}: {vx}}}"))
                    if tier == "thorough":
                        ops.append((f"s.update({sp}={vx})", f"s.update({sp}={vx})"))
                    ops.append((f"copy; c[{sp!r}] = {vx}", f"c = s.copy(); c[{sp!r}] = {vx}"))
                ops.append((f"copy; c.{attr} = {vx}", f"c = s.copy(); c.{attr} = {vx}"))
        ops.append((f"del s.{attr}", f"del s.{attr}"))
        if schema:
            for sp in spellings:
                ops.append((f"del s[{sp!r}]", f"del s[{sp!r}]"))
                ops.append((f"s.pop({sp!r})", f"s.pop({sp!r})"))
                ops.append((f"s.pop({sp!r}, None)", f"s.pop({sp!r}, None)"))
            ops.append((f"copy; del c.{attr}", f"c = s.copy(); del c.{attr}"))
    k, values = UNKNOWN
    for vx, kind in values:
        ops.append((f"s.{k} = {vx}", f"s.{k} = {vx}"))
        if schema:
            ops.append((f"s[{k!r}] = {vx}", f"s[{k!r}] = {vx}"))
            ops.append((f"s.update({{{k!r}: {vx}}})", f"s.update({{{k!r}: {vx}}})"))
            ops.append((f"s.setdefault({k!r}, {vx})", f"s.setdefault({k!r}, {vx})"))
            ops.append((f"s |= {{{k!r}: {vx}}}", f"s |= {{{k!r}: {vx}}}"))
    if schema:
        ops += [(f"del s[{k!r}]", f"del s[{k!r}]"), (f"s.pop({k!r}, None)", f"s.pop({k!r}, None)"),
                ("s.popitem()", "s.popitem()"), ("s.clear()", "s.clear()"), ("copy; c.clear()", "c = s.copy(); c.clear()"),
                ("copy; c.popitem()", "c = s.copy(); c.popitem()")]
        ops += [("multi; " + m, m) for m in MULTI]
    return ops


def bounds(tier):
    use_model("A")
    return dict(classes=["Schema", "DataClass"], second_model="inherited fields + key case: option sets %r, depth +1" % (OPTION_SETS_B,),
                option_sets=OPTION_SETS, initial_instances=len(INIT),
                operations_schema=len(operations("Schema", tier)), operations_dataclass=len(operations("DataClass", tier)),
                depth=4 if tier == "thorough" else 3)


def shards(tier):
    use_model("A")
    out = [(base, oi, ii, "A") for base in ("Schema", "DataClass") for oi in range(len(OPTION_SETS)) for ii in range(len(INIT))]
    out += [(base, oi, ii, "B") for base in ("Schema", "DataClass") for oi in range(len(OPTION_SETS_B)) for ii in range(len(INIT_B))]
    out += [("Schema", oi, ii, "C") for oi in range(len(OPTION_SETS_C)) for ii in range(len(INIT_C))]
    return out


_CODE = {}


def _exec(stmt, env):
    c = _CODE.get(stmt)
    if c is None:
        c = _CODE[stmt] = compile(stmt, "<c07-op>", "exec")
    exec(c, env)


def build_class(base, opt_expr):
    env = dict(_NS)
    env["__name__"] = "utmc.ns"
    src = SRC.format(name="S", base=base, options=f"    __options__ = Options({opt_expr})" if opt_expr else "") + HOLDER
    exec(src, env)
    return env["S"], src, env


def snapshot(inst):
    d = dict(dict.items(inst)) if isinstance(inst, dict) else None
    a = {k: v for k, v in inst.__dict__.items() if not k.startswith("__")}
    return d, a


def state_key(inst):
    d, a = snapshot(inst)
    return (canon(d), canon(a))


def rebuild(cls, init_expr, hist, env):
    inst = eval(init_expr, dict(env))
    for stmt in hist:
        e = dict(env)
        e["s"] = inst
        try:
            _exec(stmt, e)
        except Exception:
            pass
        inst = e["s"]            # `s |= ...` rebinds
    return inst


def full_snapshot(inst):
    return (dict(dict.items(inst)) if isinstance(inst, dict) else None, dict(inst.__dict__))


def restore(cls, snap):
    """a fresh instance holding exactly the two mappings of a visited state (values are immutable ints / strs;
    equivalent to replaying the history, and much cheaper)"""
    d, a = snap
    inst = cls.__new__(cls)
    if d is not None:
        dict.update(inst, d)
    inst.__dict__.update(a)
    return inst


PRED = {
    "name": lambda v: type(v) is str and len(v) <= 5,
    "age": lambda v: type(v) is int and v >= 0,
    "tag": lambda v: type(v) is str,
    "uid": lambda v: type(v) is int,
    "nickName": lambda v: type(v) is str,
    "secret": lambda v: type(v) is str,
    "label": lambda v: type(v) is str,
    "fin": lambda v: type(v) is int and v >= 1,
    "hint": lambda v: type(v) is str,
    "bonus": lambda v: type(v) is int,
}


_ABSENT = object()
# what the attribute of an absent key may read: nothing, or its declared default
DEFAULTS_A = {"age": [0], "uid": [1], "fin": [4]}


def invariant(cls, inst, opt_expr, uid0, base):
    """-> list of (kind, message) violations of the statement's invariant on one instance"""
    if _CUR_MODEL[0] == "B":
        return invariant_b(cls, inst, opt_expr, uid0, base)
    if _CUR_MODEL[0] == "C":
        return invariant_c(cls, inst, opt_expr, uid0, base)
    bad = []
    schema = base == "Schema"
    d, a = snapshot(inst)
    if schema:
        view = d
        if not isinstance(inst, cls):
            bad.append(("type-lost", f"the instance is now a {type(inst).__name__}"))
            return bad
        for k, v in view.items():
            if k in PRED:
                if not PRED[k](v):
                    bad.append((f"unparsed-{k}", f"key {k!r} holds {v!r}, which does not conform to its declaration"))
            elif k in ("nick", "nn"):
                bad.append(("alias-as-key", f"input alias {k!r} stored as a key next to the output name"))
            else:
                if "addition=True" in opt_expr:
                    pass
                elif "addition=int" in opt_expr:
                    if type(v) is not int:
                        bad.append(("unparsed-addition", f"extra key {k!r} holds {v!r}, not converted to the addition type int"))
                else:
                    bad.append(("stray-key", f"extra key {k!r} present although addition is not enabled"))
        if "secret" in view:
            bad.append(("no-output-key", "no_output field 'secret' appears in the mapping"))
        if "name" not in view:
            bad.append(("required-missing", "required field 'name' is gone"))
        if "label" in view and "name" in view and type(view["name"]) is str and view["label"] != view["name"].upper():
            bad.append(("stale-property", f"label == {view['label']!r} but name == {view['name']!r}"))
        if view.get("uid", uid0) != uid0:
            bad.append(("immutable-changed", f"uid is {view.get('uid')!r}, initially {uid0!r}"))
        if "uid" not in view:
            bad.append(("immutable-removed", "immutable field uid was removed from the instance"))
        if view.get("fin") != 4:
            bad.append(("final-changed", f"Final field fin is {view.get('fin', '<absent>')!r}, declared default 4"))
        if "bonus" in view and type(view.get("age")) is int and (view["bonus"] != view["age"] * 2 or view["bonus"] < 3):
            bad.append(("stale-property", f"bonus == {view['bonus']!r} but age == {view['age']!r} (bonus = age * 2, published only when >= 3)"))
        sec_now = a.get("secret", "s")
        if "hint" in view and type(sec_now) is str and view["hint"] != sec_now[:1]:
            bad.append(("stale-property", f"hint == {view['hint']!r} but secret == {sec_now!r}"))
        # views agree
        for attr, (out, spellings, _) in FIELDS.items():
            if attr in ("secret", "label", "hint", "bonus"):
                continue
            for sp in spellings:
                try:
                    has = sp in inst
                except Exception as e:
                    bad.append(("contains-raises", f"{sp!r} in s raised {type(e).__name__}"))
                    continue
                if has != (out in view):
                    bad.append(("views-disagree", f"{sp!r} in s is {has} but the mapping {'has' if out in view else 'lacks'} {out!r}"))
                elif has:
                    try:
                        if canon(inst[sp]) != canon(view[out]):
                            bad.append(("views-disagree", f"s[{sp!r}] != stored {out!r}"))
                    except Exception as e:
                        bad.append(("getitem-raises", f"s[{sp!r}] raised {type(e).__name__}"))
            if out in view:
                try:
                    if canon(getattr(inst, attr)) != canon(view[out]):
                        bad.append(("views-disagree", f"s.{attr} == {getattr(inst, attr)!r} but s[{out!r}] == {view[out]!r}"))
                except Exception as e:
                    bad.append(("getattr-raises", f"s.{attr} raised {type(e).__name__} although the key is present"))
            else:
                # the key is absent: the attribute view must not serve a value of an earlier state
                try:
                    val = getattr(inst, attr)
                except AttributeError:
                    val = _ABSENT
                except Exception as e:
                    bad.append(("getattr-raises", f"s.{attr} raised {type(e).__name__}"))
                    val = _ABSENT
                if val is not _ABSENT and canon(val) not in [canon(x) for x in DEFAULTS_A.get(attr, [])]:
                    bad.append(("stale-attribute", f"the key {out!r} is absent but s.{attr} still reads {val!r}"))
        sec = a.get("secret", "s")
        if not PRED["secret"](sec):
            bad.append(("unparsed-secret", f"secret attribute holds {sec!r}"))
    else:
        view = a
        for k, v in view.items():
            out = FIELDS[k][0] if k in FIELDS else k
            if out in PRED:
                if not PRED[out](v):
                    bad.append((f"unparsed-{k}", f"attribute {k!r} holds {v!r}, which does not conform to its declaration"))
            # other attributes of a DataClass instance are plain Python attributes, not data of the class
        if "name" not in view:
            bad.append(("required-missing", "required field 'name' is gone"))
        if view.get("uid", uid0) != uid0:
            bad.append(("immutable-changed", f"uid is {view.get('uid')!r}, initially {uid0!r}"))
        if view.get("fin") != 4:
            bad.append(("final-changed", f"Final field fin is {view.get('fin', '<absent>')!r}, declared default 4"))
        try:
            if type(view.get("secret")) is str and inst.hint != view["secret"][:1]:
                bad.append(("stale-property", f"hint == {inst.hint!r} but secret == {view['secret']!r}"))
        except Exception as e:
            bad.append(("property-raises", f"s.hint raised {type(e).__name__}: {e}"))
        try:
            if "name" in view and type(view["name"]) is str and inst.label != view["name"].upper():
                bad.append(("stale-property", f"label == {inst.label!r} but name == {view['name']!r}"))
        except Exception as e:
            bad.append(("property-raises", f"s.label raised {type(e).__name__}: {e}"))
    return bad


def run_shard(shard, tier):
    base, oi, ii, model = shard
    use_model(model)
    acc = Acc()
    opt_expr = OPTION_SETS[oi]
    depth = 4 if tier == "thorough" else 3
    if model in ("B", "C"):
        depth += 1          # a small alphabet: popitem has to get past the subclass field to reach the inherited ones
    cls, src, env = build_class(base, opt_expr)
    ops = operations(base, tier)
    init_expr = INIT[ii]
    inst0 = rebuild(cls, init_expr, [], env)
    ukey = "uid" if model == "A" else "userId"
    if model == "C":
        uid0 = 9
    else:
        uid0 = snapshot(inst0)[0][ukey] if base == "Schema" else snapshot(inst0)[1].get(ukey)
    for kind, msg in invariant(cls, inst0, opt_expr, uid0, base):
        _viol(acc, base, opt_expr, src, init_expr, [], "init", kind, msg)
    seen = {state_key(inst0)}
    frontier = collections.deque([((), full_snapshot(inst0))])
    acc.states = 1
    maxdepth = 0
    # self-check of the restore shortcut: replaying a history and restoring its snapshot give the same state
    while frontier:
        hist, snap = frontier.popleft()
        if len(hist) >= depth:
            continue
        if acc.states % 50 == 1:
            if state_key(rebuild(cls, init_expr, hist, env)) != state_key(restore(cls, snap)):
                raise RuntimeError(f"harness error: restore() and replay disagree for history {hist}")
        for label, stmt in ops:
            inst = restore(cls, snap)
            before = state_key(inst)
            e = dict(env)
            e["s"] = inst
            raised = None
            try:
                _exec(stmt, e)
            except Exception as ex:
                raised = ex
            acc.transitions += 1
            cur = e["s"]
            after = state_key(cur) if isinstance(cur, type(inst)) else ("type-lost", type(cur).__name__)
            acc.evaluations += 1
            src_after = state_key(inst)
            is_copy = stmt.startswith("c = s.copy()")
            acc.outcomes["raised:" + type(raised).__name__ if raised else "ok"] += 1
            # Schema instances keep the options they were parsed with; an attribute-based DataClass documents no such
            # per-instance options, so only its class options count
            whole_immutable = "immutable=True" in opt_expr or (base == "Schema" and "immutable=True" in init_expr)
            if whole_immutable and (base == "Schema" or not is_copy):
                changed = e.get("c") if is_copy else cur
                # the data of a Schema is its mapping, the data of a DataClass its field attributes; other attributes
                # are plain Python attributes of the object
                if base == "Schema":
                    differs = changed is not None and isinstance(changed, type(inst)) and state_key(changed)[0] != before[0]
                else:
                    fa = lambda o: canon({k: v for k, v in snapshot(o)[1].items() if k in FIELDS})
                    differs = isinstance(changed, type(inst)) and fa(changed) != fa(restore(cls, snap))
                if differs:
                    _viol(acc, base, opt_expr, src, init_expr, list(hist) + [stmt], label,
                          ("copy-" if is_copy else "") + "immutable-instance-changed",
                          "the instance is immutable (options of the instance) but the operation changed " +
                          ("its copy" if is_copy else "it"))
            if is_copy:
                # mutating a copy must not touch the source; the copy itself obeys the invariant
                if src_after != before:
                    _viol(acc, base, opt_expr, src, init_expr, list(hist) + [stmt], label, "copy-shares-state",
                          "mutating the copy changed the source instance")
                c = e.get("c")
                if c is not None and raised is None:
                    for kind, msg in invariant(cls, c, opt_expr, uid0, base):
                        _viol(acc, base, opt_expr, src, init_expr, list(hist) + [stmt], label, "copy-" + kind, "on the copy: " + msg)
                if src_after != before or raised is not None:
                    acc.nontrivial_add((shard, hist, stmt))
                continue
            broken = False
            if raised is not None and after != before and not label.startswith("multi;"):
                broken = True
                _viol(acc, base, opt_expr, src, init_expr, list(hist) + [stmt], label, "raised-but-changed",
                      f"raised {type(raised).__name__} but the data changed")
            for kind, msg in invariant(cls, cur, opt_expr, uid0, base) if after[0] != "type-lost" else [("type-lost", f"s is now a {after[1]}")]:
                broken = True
                _viol(acc, base, opt_expr, src, init_expr, list(hist) + [stmt], label, kind, msg)
            if raised is not None or after != before:
                acc.nontrivial_add((shard, hist, stmt))
            if broken:
                continue        # a state that violates the invariant is reported once and not expanded
            if after not in seen and after[0] != "type-lost":
                seen.add(after)
                acc.states += 1
                frontier.append((hist + (stmt,), full_snapshot(cur)))
                maxdepth = max(maxdepth, len(hist) + 1)
                if acc.states % 97 == 0:
                    acc.sample(dict(cls=base, options=opt_expr, init=init_expr, history=list(hist) + [stmt],
                                    state=short(snapshot(cur), 160)))
    acc.extra[f"max_depth_{base}"] = max(acc.extra.get(f"max_depth_{base}", 0), maxdepth)
    return acc


def finalize(total, tier):
    # max depth facts are merged additively by Acc; keep them readable
    pass


def _viol(acc, base, opt_expr, src, init_expr, hist, label, kind, msg):
    if label.startswith("multi;"):
        label = "s.multi_update()"
    opname = label.split("(")[0].split(" = ")[0] if not label.startswith("copy") else "copy"
    opname = "".join(ch for ch in opname.split("[")[0] if ch.isalpha() or ch in "._|= ") .strip()
    if label.startswith("s[") or label.startswith("del s["):
        opname = label.split("[")[0] + "[]"
    fp = f"C07|{base}{'' if _CUR_MODEL[0] == 'A' else '-inherited' if _CUR_MODEL[0] == 'B' else '-hidden'}|{opt_expr or 'default'}|{opname}|{kind}"
    script = "\n".join([
        "import sys", "sys.path.insert(0, '/verif')", "from utmc.ns import *", "from utmc.props import c07",
        f"c07.use_model({_CUR_MODEL[0]!r})", f"cls, src, env = c07.build_class({base!r}, {opt_expr!r})", "print(src)",
        f"s = c07.rebuild(cls, {init_expr!r}, {hist[:-1]!r}, env)",
        "uid0 = (dict(s) if isinstance(s, dict) else s.__dict__).get('uid' if c07._CUR_MODEL[0] == 'A' else 'userId')",
        "before = c07.state_key(s)", "e = dict(env); e['s'] = s; raised = None",
        "try:", f"    exec({hist[-1] if hist else 'pass'!r}, e)", "except Exception as ex:", "    raised = ex",
        "cur = e.get('c', e['s']) if " + repr(bool(hist and hist[-1].startswith('c = s.copy()'))) + " else e['s']",
        "print('raised:', repr(raised)); print('state:', c07.snapshot(cur))",
        f"bad = c07.invariant(cls, cur, {opt_expr!r}, uid0, {base!r}) if isinstance(cur, cls) else [('type-lost', type(cur).__name__)]",
        "if raised is not None and c07.state_key(s) != before and " + repr(kind == "raised-but-changed") + ": bad.append(('raised-but-changed', ''))",
        "if c07.state_key(s) != before and 'c' in e: bad.append(('copy-shares-state', ''))",
        "print(bad)", "sys.exit(1 if bad else 0)"]) + "\n"
    acc.violation(fp, f"{base} Options({opt_expr}) init={init_expr} history={hist}: {msg}", script,
                  dict(source=src, init=init_expr, history=hist, kind=kind))
