"""C16 — converter resolution is a pure function of the registrations made so far.

E2: exhaustive enumeration of operation histories (register / resolve / convert) on
  (a) a fresh utype.utils.base.TypeRegistry(cache=True) and
  (b) the real TypeTransformer.registry driven through utype.register_transformer /
      utype.type_transform under snapshot-and-restore,
compared on every resolve with a cache-free reference model computed from the
registration list alone.
"""
import itertools

from ..core import Acc, bootstrap

bootstrap()
from utype.utils.base import TypeRegistry  # noqa: E402
from utype.utils.transform import TypeTransformer, type_transform  # noqa: E402
import utype  # noqa: E402

ID = "C16"
LEVEL = "model_checking"
RULE = ("all histories over the alphabet {register(menu entry), resolve(class)} up to the depth bound, "
        "each replayed on a fresh registry; state = (registration list, cached classes); a history is "
        "non-trivial when it contains a resolve whose model answer is a registration (not the default) "
        "and at least one registration follows an earlier resolve of some class")
ASSUMPTIONS = [
    "reference model: matching registration with the highest priority, the most recent winning ties",
    "class hierarchy A<-B<-C, D, E(metaclass=M), X with attribute x, BX(B) with attribute x",
    "the registry's `shortcut` attribute lookup is outside the statement and not exercised",
]

SRC_CLASSES = '''
class M(type): pass
class A: pass
class B(A): pass
class C(B): pass
class D: pass
class E(metaclass=M): pass
class X:
    x = 1
class BX(B):
    x = 2
class X0:
    x = 0
class AM(A, metaclass=M): pass
A.__rank__ = 1
D.__rank__ = None
import typing
L = typing.List[int]
import abc
class AB(abc.ABC): pass
class V: pass
AB.register(V)
class VS(V): pass
'''
_ns = {}
exec(SRC_CLASSES, _ns)
CLS = {k: _ns[k] for k in "A B C D E X BX M AM L AB V VS X0".split()}
# AM: a subclass of A that also has the metaclass M (criteria are a conjunction); L: typing.List[int], not a class --
# issubclass() raises TypeError for it, which the registry documents as "this registration does not match"
# V is a *virtual* subclass of the abstract class AB (AB.register(V)), VS a real subclass of V
RESOLVE_TARGETS = ["A", "B", "C", "D", "E", "X", "BX", "AM", "L", "V", "VS", "X0"]      # X0: the attribute x exists and is falsy

# registration menu: (classes, allow_subclasses, priority, attr, metaclass, detector-name)
FULL_MENU = []
for classes in [("A",), ("B",), ("D",), ("A", "D"), ()]:
    for allow in (True, False):
        for prio in (0, 1, 2):
            for attr in (None, "x"):
                for meta in (None, "M"):
                    if not classes and not attr and not meta:
                        continue
                    if not classes and not allow:
                        continue
                    FULL_MENU.append((classes, allow, prio, attr, meta, None))
for prio in (0, 1):
    FULL_MENU.append(((), True, prio, None, None, "det_CD"))

QUICK_MENU = [
    (("A",), True, 0, None, None, None),
    (("A",), True, 1, None, None, None),
    (("B",), True, 0, None, None, None),
    (("B",), False, 0, None, None, None),
    (("B",), True, 2, None, None, None),
    (("A", "D"), True, 0, None, None, None),
    (("D",), False, 1, None, None, None),
    ((), True, 0, "x", None, None),
    ((), True, 1, None, "M", None),
    (("B",), True, 0, "x", None, None),
    ((), True, 0, None, None, "det_CD"),
    (("A",), True, 0, None, "M", None),          # classes and metaclass together
    ((), True, 0, None, None, "det_rank"),        # a detector that raises TypeError for D
    ((), True, 0, "__origin__", None, None),      # matches only the non-class target L
    ((), True, 2, None, None, "det_lazy"),        # registers a converter for A while resolve(B) scans
    (("AB",), True, 0, None, None, None),         # an abstract class: matches its virtual subclasses too
]
MID_MENU = QUICK_MENU + [
    (("A",), True, 1, None, "M", None),
    ((), True, 1, None, None, "det_rank"),
    (("A",), False, 0, None, None, None),
    (("A",), True, 2, None, None, None),
    (("B",), True, 1, None, None, None),
    (("D",), True, 0, None, None, None),
    ((), True, 2, "x", None, None),
    ((), True, 0, None, "M", None),
    (("A",), True, 1, "x", None, None),
    ((), True, 1, None, None, "det_CD"),
]


def det_CD(c):
    return c.__name__ in ("C", "D")


def det_rank(c):
    return getattr(c, "__rank__", 0) > 0        # None > 0 raises TypeError (class D)


_CUR = [None]       # the system under replay (for the detector with a side effect)
LAZY_ENTRY = (("A",), True, 0, None, None, None)


def det_lazy(c):
    """matches nothing, but the first time it is asked about class B it registers a converter for A and its
    subclasses -- a registration that completes while resolve() is in the middle of its scan"""
    s = _CUR[0]
    if s is not None and c is CLS["B"] and not s.lazy_fired:
        s.lazy_fired = True
        s.lazy_now = True
        s.register(LAZY_ENTRY)
    return False


DETECTORS = {"det_CD": det_CD, "det_rank": det_rank, "det_lazy": det_lazy}


def entry_matches(entry, cls):
    try:
        return _entry_matches(entry, cls)
    except (TypeError, ValueError):
        return False        # documented in TypeRegistry.resolve: a detector that raises does not match


def _entry_matches(entry, cls):
    classes, allow, prio, attr, meta, det = entry
    if det == "det_lazy":
        return False            # its side effect is modelled by replay()
    if det:
        return DETECTORS[det](cls)
    if classes:
        cs = tuple(CLS[c] for c in classes)
        if allow:
            if not issubclass(cls, cs):
                return False
        elif cls not in cs:
            return False
    if meta and not isinstance(cls, CLS[meta]):
        return False
    if attr and not hasattr(cls, attr):
        return False
    return True


def model_resolve(regs, cls):
    """regs: list of (index, entry) in registration order. Highest priority, latest first."""
    best = None
    for idx, entry in regs:
        if entry_matches(entry, cls):
            if best is None or entry[2] > best[1][2] or (entry[2] == best[1][2] and idx > best[0]):
                best = (idx, entry)
    return None if best is None else best[0]


def bounds(tier):
    if tier == "quick":
        return dict(fresh_registry=dict(menu=len(QUICK_MENU), resolve_targets=len(RESOLVE_TARGETS), depth=4),
                    real_registry=dict(menu=len(QUICK_MENU), depth=3))
    return dict(fresh_registry=dict(menu=len(MID_MENU), resolve_targets=len(RESOLVE_TARGETS), depth=5,
                                    plus=f"full menu ({len(FULL_MENU)}) to depth 3"),
                real_registry=dict(menu=len(MID_MENU), depth=4))


def shards(tier):
    out = []
    if tier == "quick":
        menu, depth = "quick", 4
        for first in range(len(op_list(QUICK_MENU, "fresh"))):
            out.append(("fresh", menu, depth, (first,)))
        for first in range(len(op_list(QUICK_MENU, "real"))):
            out.append(("real", menu, 3, (first,)))
        for first in range(len(op_list(QUICK_MENU, "encoder"))):
            out.append(("encoder", menu, 3, (first,)))
        for first in range(len(op_list(QUICK_MENU, "child"))):
            out.append(("child", menu, 3, (first,)))
    else:
        n = len(op_list(MID_MENU, "fresh"))
        for a in range(n):
            for b in range(n):
                out.append(("fresh", "mid", 5, (a, b)))
        for a in range(len(op_list(FULL_MENU, "fresh"))):
            out.append(("fresh", "full", 3, (a,)))
        for a in range(len(op_list(MID_MENU, "real"))):
            out.append(("real", "mid", 4, (a,)))
        for a in range(len(op_list(MID_MENU, "encoder"))):
            out.append(("encoder", "mid", 4, (a,)))
        for a in range(len(op_list(MID_MENU, "child"))):
            out.append(("child", "mid", 4, (a,)))
    return out


REREG_ENTRIES = [(("B",), True, 0, None, None, None), (("D",), False, 1, None, None, None), (("A",), True, 1, None, None, None)]
MENUS = {"quick": QUICK_MENU, "mid": MID_MENU, "full": FULL_MENU}


def op_list(menu, sysname="fresh"):
    # the non-class target L is only resolved on the fresh registry (the process-wide one has its own registrations
    # for generic aliases, which the model does not know)
    targets = [t for t in RESOLVE_TARGETS if not (sysname in ("real", "encoder") and t == "L")]
    menu = [e for e in menu if not (sysname in ("real", "encoder") and e[3] == "__origin__")]
    # "rereg": the function object of registration #0 registered again under other criteria (a converter may serve
    # several registrations; none of them may disappear)
    rereg = [e for e in menu if e in REREG_ENTRIES]
    return [("reg", e) for e in menu] + [("rereg", e) for e in rereg] + [("res", t) for t in targets]


# ------------------------------------------------------------------ systems under test

class FreshSystem:
    name = "fresh"

    def __init__(self):
        self.reg = TypeRegistry("verif", cache=True)
        self.funcs = []
        self.lazy_fired = self.lazy_now = False

    def register(self, entry, reuse=False):
        classes, allow, prio, attr, meta, det = entry
        idx = len(self.funcs)

        def f(*a, __idx=idx):
            return __idx
        f.idx = idx
        if reuse and self.funcs:
            f = self.funcs[0]
        kw = dict(allow_subclasses=allow, priority=prio)
        if attr:
            kw["attr"] = attr
        if meta:
            kw["metaclass"] = CLS[meta]
        if det:
            kw["detector"] = DETECTORS[det]
        self.reg.register(*[CLS[c] for c in classes], **kw)(f)
        self.funcs.append(f)

    def resolve(self, tname):
        f = self.reg.resolve(CLS[tname])
        return None if f is None else getattr(f, "idx", "foreign")

    def cached(self):
        return frozenset((c.__name__, getattr(f, "idx", None)) for c, f in self.reg._cache.items())

    def close(self):
        pass


class ChildSystem(FreshSystem):
    """A registry declared on top of another one (base=...): every registration is made in the base registry, every
    resolution goes through the child, which has none of its own and answers with what the base resolves *now*."""
    name = "child"

    def __init__(self):
        super().__init__()
        self.base = self.reg
        self.child = TypeRegistry("verif-child", base=self.base, cache=True)

    def resolve(self, tname):
        f = self.child.resolve(CLS[tname])
        return None if f is None else getattr(f, "idx", "foreign")

    def cached(self):
        both = list(self.base._cache.items()) + [(c, f) for c, f in self.child._cache.items()]
        return frozenset((c.__name__, getattr(f, "idx", None)) for c, f in both) | \
            frozenset(("child:" + c.__name__, getattr(f, "idx", None)) for c, f in self.child._cache.items())


class RealSystem:
    """The process-wide transformer registry, driven through the public API."""
    name = "real"

    def __init__(self):
        self.reg = TypeTransformer.registry
        self.snap = (list(self.reg._registry), dict(self.reg._cache))
        self.n = 0
        self.first = None
        self.lazy_fired = self.lazy_now = False

    def register(self, entry, reuse=False):
        classes, allow, prio, attr, meta, det = entry
        idx = self.n
        self.n += 1

        def f(transformer, data, t, __idx=idx):
            return ("converted-by", __idx)
        f.idx = idx
        if reuse and self.first is not None:
            f = self.first
        if self.first is None:
            self.first = f
        kw = dict(allow_subclasses=allow, priority=prio)
        if attr:
            kw["attr"] = attr
        if meta:
            kw["metaclass"] = CLS[meta]
        if det:
            kw["detector"] = DETECTORS[det]
        utype.register_transformer(*[CLS[c] for c in classes], **kw)(f)

    def resolve(self, tname):
        try:
            r = type_transform("v", CLS[tname])
        except Exception as e:  # unresolved type -> TypeMismatchError (default 'throw')
            return None
        if isinstance(r, tuple) and r and r[0] == "converted-by":
            return r[1]
        return "foreign"

    def cached(self):
        return frozenset((c.__name__, getattr(f, "idx", "foreign")) for c, f in self.reg._cache.items()
                         if c.__name__ in RESOLVE_TARGETS and c in CLS.values())

    def close(self):
        self.reg._registry[:] = self.snap[0]
        self.reg._cache.clear()
        self.reg._cache.update(self.snap[1])


class EncoderSystem:
    """The process-wide encoder registry, driven through utype.register_encoder and json.dumps(cls=JSONEncoder):
    which encoder serves an instance of the class."""
    name = "encoder"

    def __init__(self):
        from utype.utils import encode as _enc
        self._enc = _enc
        self.reg = _enc.encoder_registry
        self.snap = (list(self.reg._registry), dict(self.reg._cache))
        self.n = 0
        self.first = None
        self.lazy_fired = self.lazy_now = False

    def register(self, entry, reuse=False):
        classes, allow, prio, attr, meta, det = entry
        idx = self.n
        self.n += 1

        def f(data, __idx=idx):
            return {"converted-by": __idx}
        f.idx = idx
        if reuse and self.first is not None:
            f = self.first
        if self.first is None:
            self.first = f
        kw = dict(allow_subclasses=allow, priority=prio)
        if attr:
            kw["attr"] = attr
        if meta:
            kw["metaclass"] = CLS[meta]
        if det:
            kw["detector"] = DETECTORS[det]
        utype.register_encoder(*[CLS[c] for c in classes], **kw)(f)

    def resolve(self, tname):
        import json
        try:
            text = json.dumps(CLS[tname](), cls=self._enc.JSONEncoder)
        except Exception:
            return None           # no encoder: "not JSON serializable"
        try:
            return json.loads(text)["converted-by"]
        except Exception:
            return "foreign"

    def cached(self):
        return frozenset((c.__name__, getattr(f, "idx", "foreign")) for c, f in self.reg._cache.items()
                         if c in CLS.values())

    def close(self):
        self.reg._registry[:] = self.snap[0]
        self.reg._cache.clear()
        self.reg._cache.update(self.snap[1])
        memo = getattr(self._enc.JSONEncoder, "_memo", None)
        if isinstance(memo, dict):
            memo.clear()


def replay(system_cls, ops):
    """Replays a history; returns (system, [(op_index, target, expected, actual)...] for resolves)."""
    s = system_cls()
    _CUR[0] = s
    regs = []
    fids = []        # registration index -> identity of its function (the index of the registration that created it)
    obs = []
    try:
        for i, (kind, arg) in enumerate(ops):
            if kind in ("reg", "rereg"):
                reuse = kind == "rereg"
                s.register(arg, reuse=reuse)
                fids.append(0 if (reuse and regs) else len(regs))
                regs.append((len(regs), arg))
            else:
                exp = model_resolve(regs, CLS[arg])
                exp = None if exp is None else fids[exp]
                s.lazy_now = False
                act = s.resolve(arg)
                if s.lazy_now:
                    # a registration was made by a detector during this scan: this answer may be either one (not
                    # judged); every later resolve has to know the new registration
                    fids.append(len(regs))
                    regs.append((len(regs), LAZY_ENTRY))
                    exp = act = "unjudged"
                obs.append((i, arg, exp, act))
    finally:
        _CUR[0] = None
    s.fids = fids
    return s, regs, obs


def make_script(sysname, ops):
    if sysname in ("encoder", "child") or any(k == "rereg" or (k == "reg" and a[5] == "det_lazy") for k, a in ops):
        # shared function objects / the detector with a side effect: replayed through this module
        return "\n".join([
            "import sys", "sys.path.insert(0, '/verif')", "from utmc.props import c16", f"ops = {ops!r}",
            f"s, regs, obs = c16.replay(c16.{ {'fresh': 'FreshSystem', 'real': 'RealSystem', 'encoder': 'EncoderSystem', 'child': 'ChildSystem'}[sysname] }, ops)", "s.close()",
            "for line in c16.fmt_ops(ops): print(line)",
            "for i, target, exp, act in obs: print('resolve(%s): expected the function of registration %r, got %r' % (target, exp, act))",
            "sys.exit(1 if any(o[2] != o[3] for o in obs) else 0)"]) + "\n"
    lines = ["import sys, warnings; warnings.simplefilter('ignore')",
             "sys.path.insert(0, %r)" % __import__("os").environ.get("UTYPE_SRC", "/repo"),
             "import utype", "from utype.utils.base import TypeRegistry",
             SRC_CLASSES, "def det_CD(c): return c.__name__ in ('C','D')",
             "def det_rank(c): return getattr(c, '__rank__', 0) > 0"]
    if sysname == "fresh":
        lines.append("reg = TypeRegistry('verif', cache=True)")
        lines.append("def resolve(t):\n    f = reg.resolve(t)\n    return None if f is None else f.idx")
    else:
        lines.append("reg = utype.TypeTransformer.registry")
        lines.append("def resolve(t):\n    try:\n        r = utype.type_transform('v', t)\n"
                     "    except Exception as e:\n        return None\n    return r[1] if isinstance(r, tuple) else 'foreign'")
    lines.append("def mk(i):\n    def f(*a):\n        return ('converted-by', i)\n    f.idx = i\n    return f")
    lines.append("bad = 0")
    n = 0
    regs = []
    for kind, arg in ops:
        if kind == "reg":
            classes, allow, prio, attr, meta, det = arg
            kws = [f"allow_subclasses={allow}", f"priority={prio}"]
            if attr:
                kws.append(f"attr={attr!r}")
            if meta:
                kws.append(f"metaclass={meta}")
            if det:
                kws.append(f"detector={det}")
            args = ", ".join(list(classes) + kws)
            lines.append(f"reg.register({args})(mk({n}))   # registration #{n}")
            regs.append((n, arg))
            n += 1
        else:
            exp = model_resolve(regs, CLS[arg])
            lines.append(f"got = resolve({arg}); print('resolve({arg}): expected registration', {exp!r}, 'got', got)")
            lines.append(f"bad += (got != {exp!r})")
    lines.append("sys.exit(1 if bad else 0)")
    return "\n".join(lines) + "\n"


def fmt_ops(ops):
    out = []
    for kind, arg in ops:
        if kind in ("reg", "rereg"):
            classes, allow, prio, attr, meta, det = arg
            out.append(("register" if kind == "reg" else "register-first-function-again") + "(%s%s%s%s%s%s)" % (",".join(classes), "" if allow else ",exact",
                                                  f",prio={prio}" if prio else "",
                                                  f",attr={attr}" if attr else "",
                                                  f",meta={meta}" if meta else "",
                                                  f",detector={det}" if det else ""))
        else:
            out.append(f"resolve({arg})")
    return out


def run_shard(shard, tier):
    sysname, menuname, depth, prefix = shard
    system_cls = {"fresh": FreshSystem, "real": RealSystem, "encoder": EncoderSystem, "child": ChildSystem}[sysname]
    ops_all = op_list(MENUS[menuname], sysname)
    acc = Acc()
    seen = {}   # state -> largest remaining depth it was expanded with

    def explore(hist):
        # hist: tuple of op indexes
        ops = [ops_all[i] for i in hist]
        s, regs, obs = replay(system_cls, ops)
        try:
            state = (sysname, tuple(e for _, e in regs), tuple(s.fids), s.lazy_fired, s.cached())
        finally:
            s.close()
        acc.transitions += 1
        # oracle on the last op only (earlier ones were checked when they were last)
        if ops and ops[-1][0] == "res":
            i, target, exp, act = obs[-1]
            acc.evaluations += 1
            resolved_before = any(k == "res" for k, _ in ops[:-1])
            reg_after_res = False
            seen_res = False
            for k, _ in ops:
                if k == "res":
                    seen_res = True
                elif seen_res:
                    reg_after_res = True
            if exp is not None and reg_after_res:
                acc.nontrivial_add((sysname, hist))
            acc.outcomes["resolve->" + ("default" if act is None else "registration")] += 1
            if exp != act:
                exp_e = dict(regs).get(exp) if exp is not None else None
                act_e = dict(regs).get(act) if isinstance(act, int) else None
                target_resolved_before = any(k == "res" and a == target for k, a in ops[:-1])
                fp = "C16|%s|%s|expected=%s|got=%s" % (
                    sysname,
                    "target-resolved-earlier" if target_resolved_before else "first-resolve-of-target",
                    "none" if exp_e is None else "prio%d" % exp_e[2],
                    "none" if act is None else ("foreign" if act_e is None else
                                                "prio%d-%s" % (act_e[2], "older" if (exp is not None and act < exp) else "newer")))
                acc.violation(fp, "history %s: resolve(%s) used registration %r, model says %r" % (
                    fmt_ops(ops), target, act, exp), make_script(sysname, ops),
                    dict(history=fmt_ops(ops), expected=exp, actual=act))
        remaining = depth - len(hist)
        if state not in seen:
            acc.states += 1
            if len(acc.samples) < 3 and remaining == 0:
                acc.sample(dict(system=sysname, history=fmt_ops(ops)))
        elif seen[state] >= remaining:
            return      # same state already expanded at least this deep: identical futures
        seen[state] = remaining
        if remaining <= 0:
            return
        for j in range(len(ops_all)):
            explore(hist + (j,))

    if any(p >= len(ops_all) for p in prefix):
        return acc
    # the prefix states themselves are visited (and checked) by exactly one shard each: the
    # shard whose prefix they are; shorter prefixes are checked by the shard with the same leading ops.
    explore(tuple(prefix))
    return acc
