"""C12 — conversion preferences only restrict, and keep their promises.

E1: every (source value, target type) pair over the plain builtin / standard-library targets and their subclasses is
converted under the four no_explicit_cast / no_data_loss combinations; one oracle per clause of the statement.
"""
import collections.abc
import datetime as _dt
import decimal
import fractions
import itertools
from collections import deque

from ..core import Acc, bootstrap, call_guarded

bootstrap()
from .. import typegram as tg          # noqa: E402
from ..universe import _NS, ev, all_atoms        # noqa: E402
from ..canon import short, canon     # noqa: E402

from utype.utils import exceptions as uexc   # noqa: E402

ID = "C12"
LEVEL = "model_checking"
RULE = ("product space: every atom of the value alphabet (address-independent ones, plus small containers) x every plain "
        "target (builtin, standard library, Enum and user subclasses; Tuple[int] / Tuple[int, int] and data classes for the "
        "'extra items / unknown keys' clause) x the 4 flag combinations; state = one (value, target), transitions = 4 "
        "conversions. Non-trivial when at least one of the four conversions succeeds with a converted value")
ASSUMPTIONS = [
    "clause (i): success under a non-empty flag set implies success without flags with an equal value of the same type",
    "clause (ii), no_data_loss: int results equal the exact rational value of numeric / numeric-string sources; bool only "
    "from True/False/0/1 and the documented boolean strings; a collection of more than one element never becomes a "
    "non-string scalar; undecodable bytes are rejected by text targets; a datetime or a string with a non-zero time part "
    "never becomes a date; extra tuple items and unknown data-class keys are rejected",
    "clause (iii), no_explicit_cast: for targets inside the six primitive groups of docs/references/options.md the source "
    "group equals the target group, except Decimal from str and the documented date/time exceptions; bool sources count "
    "as boolean and number (bool is an int); 0 and 1 count as boolean as the documentation lists them",
    "values outside a primitive group (UUID, Enum, arbitrary objects) are judged by clause (i) and (ii) only",
]

FLAGS = [{}, {"no_explicit_cast": True}, {"no_data_loss": True}, {"no_explicit_cast": True, "no_data_loss": True}]
TARGETS = [n for n in tg.PLAIN_LEAVES if n not in ("Any", "Unreg", "Sequence", "Mapping", "Iterable")] + ["MyDict", "bytearray"]
# parametrised containers (their items are converted by the rule, after / instead of the conversion of the container)
TARGETS += ["T(Set[str])", "T(Set[int])", "T(FrozenSet[int])", "T(List[int])", "T(List[str])", "T(Tuple[int, ...])", "T(Dict[str, int])", "T(Set[Tuple[int, int]])"]
EXTRA_VALUES = ["[1]", "[1, 2]", "(1, 2)", "{1, 2}", "{'a': 1, 'b': 2}", "[1.5]", "['a', 'b']", "'1,2'", "'12:00:00'",
                "'2020-01-02 00:00:00'", "'2020-01-02T10:11:12'", "datetime(2020,1,2,10,11,12)", "1.5", "2.0", "'2.0'", "'2.5'",
                "Decimal('2.0')", "Decimal('2.5')", "b'2.5'", "b'\\xff\\xfe'", "'yes'", "'f'", "'T'", "'2'", "2", "-1", "'maybe'",
                "1.0", "0.0", "Fraction(5, 2)", "10**30", "'1e2'", "1e2", "bytearray(b'abc')", "'true '", "[True]", "[[1, 2]]",
                "MyInt(1)", "MyStr('1')", "'2020-02-20 00:00:00.500000'", "'2020-02-20T00:00:00.000001'", "1582156800.5",
                "1582156800", "1582156801", "datetime(2020,2,20,0,0,0,500000)", "datetime(2020,2,20)", "b'2020-02-20 00:00:00.5'",
                "Decimal('1.5')", "Decimal('1582156800.5')",
                # collections of mappings / pairs as input of a mapping target
                "[{'a': 1, 'b': 2}]", "[{'a': 1, 'b': 2}, {'c': 3, 'd': 4}]", "[('a', 1)]", "[['a', 1], ['b', 2]]", "({'a': 1},)",
                "[{'a': 1}, ('b', 2)]",
                # byte-likes with undecodable content
                "memoryview(b'1\\xff2')", "memoryview(b'12')", "bytearray(b'1\\xff2')", "[memoryview(b'1\\xff2')]", "memoryview(b'2.5')",
                # mappings that are not dicts
                "[__import__('types').MappingProxyType({'a': 1, 'b': 2})]", "[__import__('collections').ChainMap({'a': 1, 'b': 2})]",
                "__import__('types').MappingProxyType({'a': 1, 'b': 2})", "(__import__('collections').OrderedDict(a=1, b=2),)"]


def bounds(tier):
    _TIER[0] = tier
    return dict(targets=len(TARGETS), atoms=len(values()), flag_sets=4,
                wrapped_atoms="[a], (a,), [a, a], {'k': a} of every atom" if tier == "thorough" else "no")


_VALUES = {}
_TIER = ["quick"]


def values():
    tier = _TIER[0]
    if tier not in _VALUES:
        out = []
        seen = set()
        base = all_atoms(include_deep=False) + EXTRA_VALUES
        if tier == "thorough":
            # every atom once more inside a one- and a two-element container and as a mapping value
            # (not the memoryviews: nested in a container they are rendered with their address)
            base = base + [w.format(a) for a in base if "memoryview(" not in a
                           for w in ("[{}]", "({},)", "[{0}, {0}]", "{{'k': {}}}")]
        for v in base:
            if v in seen:
                continue
            seen.add(v)
            try:
                if (" at 0x" in repr(ev(v)) and "memoryview(" not in v) or v == "BadStr()":
                    continue      # (a memoryview prints its address but is compared by content)
            except Exception:
                continue
            out.append(v)
        _VALUES[tier] = out
    return _VALUES[tier]


UNION_MEMBERS = ["int", "float", "str", "Decimal", "bool", "date", "datetime", "NoneType", "list"]


def shards(tier):
    return [("target", t) for t in TARGETS] + [("tuple",), ("dataclass",)] + [("union", a) for a in UNION_MEMBERS]


def convert(t, vx, oi):
    o = _opt(oi)
    st, payload = call_guarded(lambda: _NS["type_transform"](ev(vx), t, options=o), wall_s=1.0, step_budget=400_000)
    if st == "ok":
        return ("ok", payload)
    if st == "exc" and isinstance(payload, (TypeError, ValueError, uexc.ParseError, ArithmeticError, OverflowError)):
        return ("err", payload)
    return ("other", payload)


_O = {}


def _opt(oi):
    o = _O.get(oi)
    if o is None:
        o = _O[oi] = _NS["Options"](**FLAGS[oi])
    return o


# ------------------------------------------------------------------------------------------- reference notions

def exact_value(x):
    """exact rational value of a numeric / numeric-text source, else None"""
    if isinstance(x, bool):
        return fractions.Fraction(int(x))
    if isinstance(x, int):
        return fractions.Fraction(x)
    if isinstance(x, float):
        return fractions.Fraction(x) if x == x and abs(x) != float("inf") else None
    if isinstance(x, decimal.Decimal):
        return fractions.Fraction(x) if x.is_finite() else None
    if isinstance(x, fractions.Fraction):
        return x
    if isinstance(x, (bytes, bytearray)):
        try:
            x = bytes(x).decode()
        except Exception:
            return None
    if isinstance(x, str):
        s = x.strip()
        try:
            d = decimal.Decimal(s)
            return fractions.Fraction(d) if d.is_finite() else None
        except Exception:
            return None
    return None


BOOL_STRINGS = {"0", "false", "no", "off", "f", "1", "true", "yes", "on", "t", "y", "n"}


def unambiguous_bool(x):
    if isinstance(x, bool):
        return True
    if isinstance(x, (int, float, decimal.Decimal, fractions.Fraction, complex)) and not isinstance(x, bool):
        try:
            return x in (0, 1)
        except Exception:
            return False
    if isinstance(x, (bytes, bytearray)):
        try:
            x = bytes(x).decode()
        except Exception:
            return False
    if isinstance(x, str):
        return x.strip().lower() in BOOL_STRINGS
    return False


def group(x):
    """primitive groups of a *value* (docs/references/options.md); a value may belong to several"""
    if x is None:
        return {"null"}
    if isinstance(x, bool):
        return {"boolean", "number"}
    if isinstance(x, (int, float, decimal.Decimal, fractions.Fraction, complex)):
        g = {"number"}
        try:
            if x in (0, 1):
                g.add("boolean")
        except Exception:
            pass
        return g
    if isinstance(x, (str, bytes, bytearray, memoryview)):
        return {"string"}
    if isinstance(x, (list, tuple, set, frozenset, deque)):
        return {"array"}
    if isinstance(x, collections.abc.Mapping):
        return {"object"}
    return set()


TARGET_GROUP = {"NoneType": "null", "bool": "boolean", "int": "number", "float": "number", "Decimal": "number",
                "complex": "number", "MyInt": "number", "str": "string", "bytes": "string", "bytearray": "string",
                "MyStr": "string", "list": "array", "tuple": "array", "set": "array", "frozenset": "array", "deque": "array",
                "MyList": "array", "dict": "object", "MyDict": "object"}
SCALAR_TARGETS = {"bool", "int", "float", "Decimal", "MyInt", "date", "datetime", "time", "timedelta", "UUID",
                  "NoneType", "Color", "Num", "Tricky", "Plain"}
TEXT_TARGETS = {"str", "MyStr"}


def has_time_part(x):
    if isinstance(x, bool):
        return False
    if isinstance(x, (int, float, decimal.Decimal)):
        # a timestamp in seconds that is not a whole UTC day
        try:
            return x == x and abs(x) < 2e10 and round(float(x) % 86400, 6) not in (0.0, 86400.0)
        except Exception:
            return False
    if isinstance(x, _dt.datetime):
        return (x.hour, x.minute, x.second, x.microsecond) != (0, 0, 0, 0)
    if isinstance(x, (bytes, bytearray)):
        try:
            x = bytes(x).decode()
        except Exception:
            return False
    if isinstance(x, str):
        import re
        m = re.search(r"(\d{1,2}):(\d{2})(?::(\d{2})(?:[.,](\d+))?)?", x)
        if not m:
            return False
        return any(int(p or 0) for p in m.groups())
    return False


# ------------------------------------------------------------------------------------------- shards

def run_shard(shard, tier):
    _TIER[0] = tier
    acc = Acc()
    if shard[0] == "tuple":
        _tuple(acc)
        return acc
    if shard[0] == "dataclass":
        _dataclass(acc)
        return acc
    if shard[0] == "union":
        _union(acc, shard[1])
        return acc
    tname = shard[1]
    t = ev(tname)
    for vx in values():
        acc.states += 1
        res = [convert(t, vx, oi) for oi in range(4)]
        acc.transitions += 4
        x = ev(vx)
        _judge(acc, tname, vx, x, res)
        if acc.states % 97 == 0:
            acc.sample(dict(target=tname, value=vx, results=[r[0] if r[0] != "ok" else short(r[1], 40) for r in res]))
    return acc


def _viol(acc, tname, vx, x, kind, msg, setup=""):
    fp = f"C12|{tname}|{kind}|{_vshape(x)}"
    script = "\n".join([
        "import sys", "sys.path.insert(0, '/verif')", "from utmc.ns import *", "from utmc.props import c12", setup,
        f"acc = c12.Acc(); x = {vx}",
        f"res = [c12.convert({tname}, {vx!r}, oi) for oi in range(4)]",
        "for f, r in zip(c12.FLAGS, res): print(f, r[0], repr(r[1])[:120])",
        f"c12._judge(acc, {tname!r}, {vx!r}, x, res)",
        "for fp, vs in acc.violations.items(): print(fp); print('  ', vs[0].summary)",
        "sys.exit(1 if acc.violations else 0)"]) + "\n"
    acc.violation(fp, f"type_transform({vx}, {tname}): {msg}", script)


def _vshape(x):
    from .. import e1
    try:
        return e1.value_shape(x)
    except Exception:
        return type(x).__name__


def _judge(acc, tname, vx, x, res):
    acc.evaluations += 1
    base = res[0]
    for oi in range(4):
        acc.outcomes[f"{'+'.join(sorted(FLAGS[oi])) or 'default'}:{res[oi][0]}"] += 1
        if res[oi][0] == "other":
            acc.extra["non_conversion_exception (C04's subject)"] += 1
    if any(r[0] == "ok" and r[1] is not x for r in res):
        acc.nontrivial_add((tname, vx))
    # (i) the flags only restrict
    for oi in (1, 2, 3):
        r = res[oi]
        if r[0] != "ok":
            continue
        flags = "+".join(sorted(FLAGS[oi]))
        if base[0] != "ok":
            _viol(acc, tname, vx, x, f"restrict-only-{flags}", f"converts to {short(r[1], 60)} under {flags} but fails without flags "
                                                                f"({short(base[1], 80)})")
        elif canon(base[1]) != canon(r[1]) or type(base[1]) is not type(r[1]):
            _viol(acc, tname, vx, x, f"same-value-{flags}", f"gives {short(r[1], 60)} ({type(r[1]).__name__}) under {flags} but "
                                                            f"{short(base[1], 60)} ({type(base[1]).__name__}) without flags")
    # (ii) no_data_loss keeps its promises
    for oi in (2, 3):
        r = res[oi]
        if r[0] != "ok":
            continue
        y = r[1]
        flags = "+".join(sorted(FLAGS[oi]))
        if tname in ("int", "MyInt"):
            ev_ = exact_value(x)
            if ev_ is not None and fractions.Fraction(int(y)) != ev_:
                _viol(acc, tname, vx, x, f"no-data-loss-int-{flags}", f"became {y!r} under {flags} although its exact value is {ev_}")
        if tname == "bool" and not unambiguous_bool(x):
            _viol(acc, tname, vx, x, f"no-data-loss-bool-{flags}", f"became {y!r} under {flags} although it is not an unambiguous boolean")
        if tname in SCALAR_TARGETS and isinstance(x, (list, tuple, set, frozenset, deque, dict)) and len(x) > 1:
            _viol(acc, tname, vx, x, f"no-data-loss-collapse-{flags}", f"a collection of {len(x)} elements became the scalar {short(y, 40)} under {flags}")
        if tname in TEXT_TARGETS and isinstance(x, (bytes, bytearray, memoryview)):
            try:
                bytes(x).decode()
            except UnicodeDecodeError:
                _viol(acc, tname, vx, x, f"no-data-loss-decode-{flags}", f"undecodable bytes became {short(y, 40)} under {flags}")
        if tname == "date" and has_time_part(x):
            _viol(acc, tname, vx, x, f"no-data-loss-date-{flags}", f"a value with a time part became the date {y!r} under {flags}")
    # (iii) no_explicit_cast stays inside the primitive group
    tg_ = TARGET_GROUP.get(tname)
    if tg_:
        for oi in (1, 3):
            r = res[oi]
            if r[0] != "ok":
                continue
            g = group(x)
            if not g or tg_ in g:
                continue
            if tname == "Decimal" and "string" in g:
                continue      # documented exception
            flags = "+".join(sorted(FLAGS[oi]))
            _viol(acc, tname, vx, x, f"no-explicit-cast-{'/'.join(sorted(g))}-to-{tg_}-{flags}",
                  f"a {'/'.join(sorted(g))} value became {short(r[1], 40)} ({tg_}) under {flags}")


def _tuple(acc):
    """extra tuple items under no_data_loss"""
    for ann, n in (("Tuple[int]", 1), ("Tuple[int, int]", 2), ("Tuple[int, str]", 2)):
        t = eval(f"T({ann})", _NS)
        for m in range(0, n + 3):
            for spelling in ("list", "tuple"):
                items = ["1", "2", "3", "4", "5"][:m]
                vx = ("[" + ", ".join(items) + "]") if spelling == "list" else ("(" + ", ".join(items) + ("," if m == 1 else "") + ")")
                acc.states += 1
                res = [convert(t, vx, oi) for oi in range(4)]
                acc.transitions += 4
                acc.evaluations += 1
                acc.nontrivial_add((ann, vx))
                for oi in (2, 3):
                    if res[oi][0] == "ok" and m > n:
                        flags = "+".join(sorted(FLAGS[oi]))
                        acc.violation(f"C12|{ann}|no-data-loss-extra-items-{flags}|{spelling}",
                                      f"type_transform({vx}, T({ann})) keeps/drops {m - n} extra items under {flags}: {short(res[oi][1], 40)}",
                                      f"import sys\nsys.path.insert(0, '/verif')\nfrom utmc.ns import *\n"
                                      f"try:\n    print(type_transform({vx}, T({ann}), options=Options(**{FLAGS[oi]!r}))); sys.exit(1)\n"
                                      f"except exc.ParseError as e:\n    print('rejected', e); sys.exit(0)\n")
                # no_data_loss next to an explicitly permissive addition, and reached through a function with **kwargs
                # (the function parser adds addition=True to its options): extra tuple items are still rejected
                if m > n:
                    for addx in ("True", "int"):
                        for oi in (2, 3):
                            o = eval(f"Options(addition={addx}, **{FLAGS[oi]!r})", _NS)
                            st, r = call_guarded(lambda: _NS["type_transform"](ev(vx), t, options=o), wall_s=1.0, step_budget=400_000)
                            acc.transitions += 1
                            if st == "ok":
                                flags = "+".join(sorted(FLAGS[oi]))
                                acc.violation(f"C12|{ann}|no-data-loss-extra-items-{flags}-with-addition|{spelling}",
                                              f"type_transform({vx}, T({ann})) under {flags} and addition={addx} keeps/drops "
                                              f"{m - n} extra items: {short(r, 40)}",
                                              f"import sys\nsys.path.insert(0, '/verif')\nfrom utmc.ns import *\n"
                                              f"try:\n    print(type_transform({vx}, T({ann}), options=Options(addition={addx}, **{FLAGS[oi]!r}))); sys.exit(1)\n"
                                              f"except exc.ParseError as e:\n    print('rejected', e); sys.exit(0)\n")
                    env = dict(_NS)
                    exec(f"@utype.parse(options=Options(no_data_loss=True))\ndef W(a: {ann}, **kwargs):\n    return a\n", env)
                    st, r = call_guarded(lambda: env["W"](ev(vx)), wall_s=1.0, step_budget=400_000)
                    acc.transitions += 1
                    if st == "ok":
                        acc.violation(f"C12|{ann}|no-data-loss-extra-items-function-with-kwargs|{spelling}",
                                      f"@utype.parse(options=Options(no_data_loss=True)) def W(a: {ann}, **kwargs): W({vx}) keeps/drops "
                                      f"{m - n} extra items: {short(r, 40)}",
                                      f"import sys\nsys.path.insert(0, '/verif')\nfrom utmc.ns import *\n"
                                      f"@utype.parse(options=Options(no_data_loss=True))\ndef W(a: {ann}, **kwargs):\n    return a\n"
                                      f"try:\n    print(W({vx})); sys.exit(1)\nexcept exc.ParseError as e:\n    print('rejected', e); sys.exit(0)\n")
                for oi in (1, 2, 3):
                    if res[oi][0] == "ok" and (res[0][0] != "ok" or canon(res[0][1]) != canon(res[oi][1])):
                        acc.violation(f"C12|{ann}|restrict-only|{spelling}",
                                      f"type_transform({vx}, T({ann})) under {FLAGS[oi]}: {short(res[oi][1], 40)} vs {short(res[0][1], 40)} without flags",
                                      "import sys\nsys.exit(1)\n")
                acc.sample(dict(target=ann, value=vx, results=[r[0] for r in res]))


def _from(cls, vx, oi):
    """the flags applied as the options the data class is parsed with (a data class otherwise uses its own options)"""
    try:
        return ("ok", cls.__from__(ev(vx), options=_opt(oi)))
    except (TypeError, ValueError) as e:
        return ("err", e)
    except Exception as e:
        return ("other", e)


def _dataclass(acc):
    """unknown keys under no_data_loss (Options: no_data_loss implies addition=False); list input for a data class"""
    for base in ("Schema", "DataClass"):
        # field a answers to two further spellings (a2, a3): keys of the field, never unknown keys
        src = f"class S({base}):\n    a: int = Field(alias_from=['a2', 'a3'])\n    b: str = 'd'\n"
        env = dict(_NS)
        env["__name__"] = "utmc.ns"
        exec(src, env)
        s_cls = env["S"]
        _NS["S"] = s_cls            # the input expressions below name the class
        for vx in ("{'a': 1}", "{'a': 1, 'zz': 2}", "{'a': '1', 'zz': 2, 'yy': 3}", "[{'a': 1}]", "[{'a': 1}, {'a': 2}]", "'a=1&zz=2'",
                   "{'a2': 1}", "{'a2': 1, 'zz': 2}", "{'a3': '1', 'zz': 2, 'yy': 3}", "{'a2': 1, 'b': 'x', 'zz': 2}",
                   "'{\"a\": 1}'", "{'a': 1.5}", "{'a': '1.5'}", "[('a', 1)]", "(('a', 1),)", "[{'a': 1, 'b': 'x'}]", "[{'a': 1, 'b': 'x'}, {'a': 2, 'b': 'y'}]",
                   # elements that already are instances of the class
                   "[S(a=1)]", "[S(a=1), S(a=2)]", "(S(a=1), {'a': 2})", "[S(a=1), 5, 6]", "[{'a': 1}, S(a=2)]",
                   # other primitive groups
                   "b'{\"a\": 1}'", "'a=1'", "'a=1;b=x'", "{('a', 1)}", "S(a=1)", "5", "None"):
            acc.states += 1
            tt_res = [convert(s_cls, vx, oi) for oi in range(4)]
            res = [_from(s_cls, vx, oi) for oi in range(4)]
            acc.transitions += 8
            acc.evaluations += 1
            acc.nontrivial_add((base, vx))
            x = ev(vx)
            for oi in (1, 2, 3):
                if tt_res[oi][0] == "ok" and tt_res[0][0] != "ok":
                    flags = "+".join(sorted(FLAGS[oi]))
                    acc.violation(f"C12|{base}|type_transform-restrict-only-{flags}|{_vshape(x)}",
                                  f"type_transform({vx}, S) converts under {flags} ({short(tt_res[oi][1], 50)}) but fails without flags",
                                  "import sys\nsys.path.insert(0, '/verif')\nfrom utmc.ns import *\n" + src +
                                  f"print(type_transform({vx}, S, options=Options(**{FLAGS[oi]!r})))\n"
                                  f"try:\n    print(type_transform({vx}, S)); sys.exit(0)\nexcept Exception as e:\n    print('fails without flags:', e); sys.exit(1)\n")

            def v(kind, msg):
                acc.violation(f"C12|{base}|{kind}|{_vshape(x)}", f"S.__from__({vx}) for S({base}: a: int = Field(alias_from=['a2', 'a3']), b: str = 'd'): {msg}",
                              "import sys\nsys.path.insert(0, '/verif')\nfrom utmc.ns import *\n" + src +
                              f"for f in ({{}}, {{'no_explicit_cast': True}}, {{'no_data_loss': True}}, {{'no_explicit_cast': True, 'no_data_loss': True}}):\n"
                              f"    try: print(f, S.__from__({vx}, options=Options(**f)))\n"
                              f"    except Exception as e: print(f, type(e).__name__, e)\nsys.exit(1)\n")
            for oi in (1, 2, 3):
                r = res[oi]
                if r[0] != "ok":
                    continue
                flags = "+".join(sorted(FLAGS[oi]))
                if res[0][0] != "ok":
                    v(f"restrict-only-{flags}", f"converts under {flags} ({short(r[1], 50)}) but fails without flags")
                elif canon(dict(r[1]) if isinstance(r[1], dict) else r[1].__dict__.get("a")) != \
                        canon(dict(res[0][1]) if isinstance(res[0][1], dict) else res[0][1].__dict__.get("a")):
                    # unknown keys are dropped without flags and rejected with no_data_loss: only compared when accepted
                    v(f"same-value-{flags}", f"{short(r[1], 50)} under {flags} vs {short(res[0][1], 50)}")
            for oi in (1, 3):
                # no_explicit_cast given by the caller: only a mapping (or an instance) is in the primitive group "object"
                r = tt_res[oi]
                flags = "+".join(sorted(FLAGS[oi]))
                import collections.abc as _abc
                if r[0] == "ok" and not isinstance(x, (_abc.Mapping, s_cls)):
                    acc.violation(f"C12|{base}|type_transform-explicit-cast-into-object-{flags}|{_vshape(x)}",
                                  f"type_transform({vx}, S) under {flags}: a {type(x).__name__} was converted into the data class "
                                  f"({short(r[1], 50)})",
                                  "import sys\nsys.path.insert(0, '/verif')\nfrom utmc.ns import *\n" + src +
                                  f"try:\n    print(type_transform({vx}, S, options=Options(**{FLAGS[oi]!r}))); sys.exit(1)\n"
                                  f"except Exception as e:\n    print('rejected:', type(e).__name__, e); sys.exit(0)\n")
            for oi in (2, 3):
                r = tt_res[oi]
                flags = "+".join(sorted(FLAGS[oi]))
                if r[0] == "ok" and isinstance(x, (list, tuple)) and len(x) > 1:
                    acc.violation(f"C12|{base}|type_transform-no-data-loss-collapse-{flags}|{_vshape(x)}",
                                  f"type_transform({vx}, S) under {flags}: a collection of {len(x)} elements became one instance "
                                  f"({short(r[1], 50)})",
                                  "import sys\nsys.path.insert(0, '/verif')\nfrom utmc.ns import *\n" + src +
                                  f"try:\n    print(type_transform({vx}, S, options=Options(**{FLAGS[oi]!r}))); sys.exit(1)\n"
                                  f"except Exception as e:\n    print('rejected:', type(e).__name__, e); sys.exit(0)\n")
            for oi in (2, 3):
                # the same flags next to an explicitly spelled addition=None (Options(**settings))
                try:
                    r2 = ("ok", s_cls.__from__(ev(vx), options=_NS["Options"](addition=None, **FLAGS[oi])))
                except Exception as e:
                    r2 = ("err", e)
                acc.transitions += 1
                if r2[0] == "ok" and isinstance(x, dict) and (set(x) - {"a", "b", "a2", "a3"}):
                    v(f"no-data-loss-unknown-keys-explicit-addition-none-{'+'.join(sorted(FLAGS[oi]))}",
                      f"unknown keys {sorted(set(x) - {'a', 'b', 'a2', 'a3'})} were dropped silently under Options(addition=None, **{FLAGS[oi]})")
            for oi in (2, 3):
                r = res[oi]
                flags = "+".join(sorted(FLAGS[oi]))
                if r[0] == "ok" and isinstance(x, dict) and (set(x) - {"a", "b", "a2", "a3"}):
                    v(f"no-data-loss-unknown-keys-{flags}", f"unknown keys {sorted(set(x) - {'a', 'b', 'a2', 'a3'})} were dropped silently under {flags}")
                if r[0] == "ok" and isinstance(x, list) and len(x) > 1:
                    v(f"no-data-loss-collapse-{flags}", f"a list of {len(x)} mappings became one instance under {flags}")
            acc.sample(dict(target=base, value=vx, results=[r[0] for r in res]))
        # the preference declared on a class-style Options that the class's own options extend: an inherited setting
        # is a setting (with what it implies: no_data_loss rejects unknown keys)
        src2 = (f"class NDL(Options):\n    no_data_loss = True\nclass SI({base}):\n    class __options__(NDL):\n"
                f"        case_insensitive = True\n    a: int\n    b: str = 'd'\n")
        env2 = dict(_NS)
        env2["__name__"] = "utmc.ns"
        exec(src2, env2)
        for vx in ("{'a': 1}", "{'a': 1, 'zz': 2}", "{'A': 1, 'zz': 2, 'yy': 3}", "{'a': 1.5}", "{'a': '2'}"):
            acc.states += 1
            acc.transitions += 1
            x = ev(vx)
            try:
                r = ("ok", env2["SI"](**x))
            except (TypeError, ValueError) as e:
                r = ("err", e)
            acc.evaluations += 1
            lost = r[0] == "ok" and (set(k.lower() for k in x) - {"a", "b"} or x.get("a", x.get("A")) == 1.5)
            if lost:
                acc.violation(f"C12|{base}|inherited-no-data-loss-not-applied|{_vshape(x)}",
                              f"SI(**{vx}) with class-style options inheriting no_data_loss=True returned {short(r[1], 50)}: "
                              f"unknown keys / a lossy value were accepted",
                              "import sys\nsys.path.insert(0, '/verif')\nfrom utmc.ns import *\n" + src2 +
                              f"try:\n    print(SI(**{vx})); sys.exit(1)\nexcept (TypeError, ValueError) as e:\n    print('rejected:', e); sys.exit(0)\n")


def _union(acc, first):
    """clause (i) for union targets (the union builds its stages from the flags)"""
    for second in UNION_MEMBERS:
        if second == first:
            continue
        ann = f"Union[{first}, {second}]"
        t = eval(f"T({ann})", _NS)
        for vx in values():
            acc.states += 1
            res = [convert(t, vx, oi) for oi in range(4)]
            acc.transitions += 4
            acc.evaluations += 1
            x = ev(vx)
            if any(r[0] == "ok" and r[1] is not x for r in res):
                acc.nontrivial_add((ann, vx))
            base = res[0]
            for oi in (1, 2, 3):
                r = res[oi]
                if r[0] != "ok":
                    continue
                flags = "+".join(sorted(FLAGS[oi]))
                kind = None
                if base[0] != "ok":
                    kind, msg = f"restrict-only-{flags}", f"converts to {short(r[1], 50)} under {flags} but fails without flags"
                elif canon(base[1]) != canon(r[1]) or type(base[1]) is not type(r[1]):
                    # is the member that wins without flags still available under the flags (alone, as a black box)?
                    avail = "unflagged-member-unknown"
                    for m in (first, second):
                        if type(base[1]) is ev(m):
                            alone_ = convert(ev(m), vx, oi)
                            avail = ("unflagged-member-available" if alone_[0] == "ok" and canon(alone_[1]) == canon(base[1])
                                     else "unflagged-member-unavailable")
                    kind = f"same-value-{flags}@{avail}"
                    msg = (f"gives {short(r[1], 50)} ({type(r[1]).__name__}) under {flags} but {short(base[1], 50)} "
                           f"({type(base[1]).__name__}) without flags")
                if kind:
                    acc.violation(f"C12|{ann}|{kind}|{_vshape(x)}", f"type_transform({vx}, T({ann})): {msg}",
                                  "import sys\nsys.path.insert(0, '/verif')\nfrom utmc.ns import *\nfrom utmc.canon import canon\n"
                                  f"t = T({ann})\na = type_transform({vx}, t, options=Options(**{FLAGS[oi]!r}))\n"
                                  f"try:\n    b = type_transform({vx}, t)\nexcept Exception as e:\n    print('fails without flags', e); sys.exit(1)\n"
                                  "print(repr(a), repr(b)); sys.exit(0 if canon(a) == canon(b) and type(a) is type(b) else 1)\n")
            if acc.states % 499 == 0:
                acc.sample(dict(target=ann, value=vx, results=[r[0] if r[0] != "ok" else short(r[1], 30) for r in res]))
