"""C05 — data-class parsing implements the declared field contract.

E1 against the documentation-derived reference model utmc.dcmodel: every (declaration, class options, runtime
options, input mapping) of the universe is parsed by the real library (fail-fast and collecting) and the instance
mapping, the attribute view and the set of reported errors are compared with the model.
"""
import itertools

from ..core import Acc, bootstrap

bootstrap()
from .. import dcmodel as M          # noqa: E402
from ..universe import _NS           # noqa: E402
from ..canon import short            # noqa: E402

import utype                          # noqa: E402
from utype.utils import exceptions as uexc   # noqa: E402

ID = "C05"
LEVEL = "model_checking"
RULE = ("product space: data classes of 1-2 int fields drawn from the Field menu (required / default / factory / "
        "defer / alias / alias_from / case_insensitive / no_input / no_output / mode / dependencies / on_error) x "
        "class Options x runtime Options via __from__ x both base classes x every assignment of {absent, valid, "
        "convertible, other valid, invalid} to the recognised key spellings (name, alias, alias_from, case variant; "
        "singles and conflicting pairs) and an unknown key; each input is parsed fail-fast and collecting. A case is "
        "non-trivial when the model expects an error, a default, a hidden key or an alias mapping")
ASSUMPTIONS = [
    "trusted base: utmc/dcmodel.py, transcribed from docs/en/references/field.md and options.md; corners the "
    "documentation leaves open are don't-care sets (counted in facts.undecided_by_docs), never expectations",
    "runtime options are the options the data is parsed with; alias and case maps stay those fixed at class creation",
    "all fields are annotated int; value conversion itself is C01's subject",
]


def decls(tier):
    """-> list of (base, (tag1[, tag2]))"""
    out = []
    menu = M.MENU
    one = range(len(menu))
    for base in ("Schema", "DataClass"):
        for i in one:
            if menu[i].deps:
                continue
            out.append((base, (menu[i].tag,)))
    if tier == "thorough":
        # every menu entry as the first field x a representative second field (the full 29 x 29 square with every
        # option set does not finish within the thorough budget)
        second = list(range(M.QUICK_MENU)) + [M.MENU.index(M.MENU_BY_TAG[t]) for t in
                                               ("alias-both", "no-output", "readonly", "exclude")]
        pairs = [(i, j) for i in range(len(menu)) for j in second]
    else:
        q = list(range(M.QUICK_MENU)) + [M.MENU.index(M.MENU_BY_TAG[t]) for t in
                                           ("no-input-default", "no-output", "readonly", "dep", "dep-default", "exclude")]
        pairs = [(i, j) for i in q for j in q[:8]]
    for base in ("Schema", "DataClass"):
        for i, j in pairs:
            if menu[j].deps:
                continue          # the second field is the dependency target
            if base == "DataClass" and tier != "thorough" and (i + j) % 2:
                continue
            out.append((base, (menu[i].tag, menu[j].tag)))
    return out


def optsets(tier, nfields):
    n = len(M.OPTION_SETS)
    cls_sets = list(range(n)) if (tier == "thorough" or nfields == 1) else [0, 1, 2, 3, 4, 6, 8, 9, 10, 12, 15, 28]
    out = [(ci, None) for ci in cls_sets]
    rt = M.RUNTIME_OK if (tier == "thorough" or nfields == 1) else [2, 6, 8, 10]
    out += [(0, r) for r in rt if r != 0]
    if tier == "thorough":
        out += [(1, 6), (4, 2), (6, 5), (3, 9)]
    return out


def bounds(tier):
    return dict(declarations=len(decls(tier)), field_menu=len(M.MENU), option_sets=len(M.OPTION_SETS),
                fields_per_class=2, values=["1", "2", "'3'", "'x'"])


CHUNK = 4


def shards(tier):
    n = len(decls(tier))
    return [("decl", i, min(i + CHUNK, n)) for i in range(0, n, CHUNK)]


def bind_fields(tags):
    names = ["a", "b"]
    out = []
    for i, t in enumerate(tags):
        other = names[1 - i] if len(tags) > 1 else None
        out.append(M.MENU_BY_TAG[t].bind(names[i], other))
    return out


# classes declared *after* the class under test: a subclass and an unrelated class whose methods / class variables are
# named like the unknown keys of the inputs -- what they exclude from their own fields is none of S's business
LATER_SRC = ("class _Sub(S):\n    def zz(self):\n        return 1\n    yy: typing.ClassVar[int] = 2\n"
             "class _Other({base}):\n    def zz(self):\n        return 1\n    _zz = 3\n")


def build_class(base, fields, opt_expr):
    src = M.class_source(base, fields, opt_expr) + LATER_SRC.format(base=base)
    env = dict(_NS)
    env["__name__"] = "utmc.ns"
    exec(src, env)
    return env["S"], src


def errors_of(e):
    """set of (kind, item) reported by a ParseError"""
    if isinstance(e, uexc.CollectedParseError):
        out = set()
        for x in e.errors:
            out |= errors_of(x)
        return out
    return {(type(e).__name__, getattr(e, "item", None))}


def observe(cls, inst, fields):
    is_schema = isinstance(inst, dict)
    keys = {}
    if is_schema:
        keys = dict(dict.items(inst))
    attrs = {}
    for f in fields:
        try:
            attrs[f.name] = ("v", getattr(inst, f.name))
        except AttributeError:
            attrs[f.name] = M.ABSENT
        if not is_schema:
            try:
                present = f.name in inst
            except Exception as e:      # noqa
                present = f"<{type(e).__name__}>"
            if present is True:
                keys[f.out] = inst.__dict__.get(f.name)
            elif present is not False:
                keys[f.out] = present
    if not is_schema:
        for k, v in inst.__dict__.items():
            if k.startswith("__") or any(k == f.name for f in fields):
                continue
            keys[k] = v
    return keys, attrs


def exp_ok(exp, present, value, raw_env=None):
    """does the observation (present, value) satisfy the expectation?"""
    k = exp[0]
    if k == "any":
        return True
    if k == "absent":
        return not present
    if k == "v":
        return present and type(value) is type(exp[1]) and value == exp[1]
    if k == "oneof":
        return present and any(type(value) is type(c) and value == c for c in exp[1])
    if k == "absent_or":
        return (not present) or (type(value) is type(exp[1]) and value == exp[1])
    if k == "raw":
        import ast
        r = ast.literal_eval(exp[1])
        return present and type(value) is type(r) and value == r
    raise ValueError(exp)


def run_shard(shard, tier):
    _, lo, hi = shard
    acc = Acc()
    for base, tags in decls(tier)[lo:hi]:
        fields = bind_fields(tags)
        for ci, ri in optsets(tier, len(tags)):
            cexpr, copts = M.OPTION_SETS[ci]
            try:
                cls, src = build_class(base, fields, cexpr)
            except Exception as e:
                acc.extra["declarations_rejected_at_build"] += 1
                if len(acc.notes) < 20:
                    acc.notes.append(f"declaration rejected: {base} {tags} Options({cexpr}): {type(e).__name__}: {short(e, 90)}")
                continue
            if ri is None:
                eff = dict(copts)
                rexpr = None
            else:
                rexpr, ropts = M.OPTION_SETS[ri]
                eff = dict(ropts)
                # alias / case maps are fixed at class creation
                if copts.get("case_insensitive"):
                    eff["case_insensitive"] = True
            model_opts = dict(eff)
            if copts.get("case_insensitive"):
                model_opts["case_insensitive"] = True
            if isinstance(copts.get("addition"), type) and ri is not None:
                continue
            for items in M.inputs_for(fields, bool(model_opts.get("case_insensitive")), tier, gen="alias_from_generator" in copts):
                _one_case(acc, base, tags, fields, cls, src, cexpr, rexpr, model_opts, items)
        try:
            from utype.parser import base as _pb
            _pb.__parsers__.clear()
        except Exception:
            pass
    return acc


def _call(cls, data, rexpr, collect):
    parts = []
    if rexpr:
        parts.append(rexpr)
    if collect:
        parts.append("collect_errors=True")
    if parts or collect:
        o = eval("Options(" + ", ".join(parts) + ")", _NS)
        return cls.__from__(data, options=o)
    return cls.__from__(data)


def _one_case(acc, base, tags, fields, cls, src, cexpr, rexpr, opts, items):
    data_expr = M.input_expr(items)
    exp = M.model(fields, opts, items)
    acc.states += 1
    outs = []
    for collect in (False, True):
        if collect and not rexpr and cexpr:
            # collecting run with class options: rebuild the runtime options as class options + collect_errors
            call_rexpr = cexpr
        else:
            call_rexpr = rexpr
        data = eval(data_expr, _NS)
        acc.transitions += 1
        try:
            inst = _call(cls, data, call_rexpr, collect)
            outs.append(("ok", inst))
        except uexc.ParseError as e:
            outs.append(("err", errors_of(e)))
        except Exception as e:
            outs.append(("other", e))
    acc.evaluations += 1
    shape = "+".join(tags)
    optk = (cexpr or "-") + "|" + (rexpr or "-")

    def viol(kind, msg):
        fp = f"C05|{base}|{shape}|{optk}|{kind}"
        acc.violation(fp, f"{base} [{', '.join(tags)}] Options({cexpr}) runtime={rexpr} input={data_expr}: {msg}",
                      _script(src, cexpr, rexpr, data_expr, tags, opts, items),
                      dict(source=src, runtime=rexpr, input=data_expr))

    if exp.unsure:
        acc.extra["undecided_by_docs"] += 1
    nontrivial = exp.rejects or any(v[0] != "v" for v in exp.keys.values()) or any(k != kk for k, kk in
                                                                              [(it[0], it[0]) for it in items][:0])
    for mode_i, (st, payload) in enumerate(outs):
        acc.outcomes[f"{'collect' if mode_i else 'failfast'}:{st}"] += 1
        if st == "other":
            viol(f"exception-{type(payload).__name__}", f"raised {type(payload).__name__}: {short(payload, 100)}")
            continue
        if st == "err":
            got = payload
            allowed = exp.must | exp.may | set().union(*exp.must_any) if exp.must_any else exp.must | exp.may
            if not exp.rejects and not (exp.may and got <= exp.may):
                viol("rejected-" + _kinds(got), f"rejected with {sorted(got, key=repr)} but the documented contract accepts")
                continue
            extra = got - allowed
            if extra:
                viol("unexpected-error-" + _kinds(extra), f"reported {sorted(extra, key=repr)}; expected within "
                                                           f"{sorted(allowed, key=repr)}")
                continue
            if mode_i == 1:
                missing = exp.must - got
                if missing:
                    viol("missing-error-" + _kinds(missing), f"collected {sorted(got, key=repr)} but not "
                                                             f"{sorted(missing, key=repr)}")
                    continue
                for grp in exp.must_any:
                    if not (grp & got):
                        viol("missing-error-" + _kinds(grp), f"collected {sorted(got, key=repr)}, none of {sorted(grp, key=repr)}")
            continue
        # accepted
        inst = payload
        if exp.rejects:
            need = sorted(exp.must | set().union(*exp.must_any) if exp.must_any else exp.must, key=repr)
            viol("accepted-" + _kinds(need), f"accepted (instance {short(inst, 80)}) but the contract requires {need}")
            continue
        keys, attrs = observe(cls, inst, fields)
        for f in fields:
            e_k = exp.keys.get(f.out, M.ANY)
            if base == "DataClass" and rexpr:
                e_k = M.ANY     # DataClass has no mapping; its `in` reflects the class options, not runtime ones
            if not exp_ok(e_k, f.out in keys, keys.get(f.out)):
                viol(f"key-{f.fd.tag}-{e_k[0]}", f"mapping view {keys!r}: key {f.out!r} expected {e_k}")
                break
            e_a = exp.attrs.get(f.name, M.ANY)
            a = attrs[f.name]
            if not exp_ok(e_a, a is not M.ABSENT, a[1] if a is not M.ABSENT else None):
                viol(f"attr-{f.fd.tag}-{e_a[0]}", f"attribute {f.name} is {a}, expected {e_a}")
                break
        else:
            known = {f.out for f in fields}
            for k, e_x in exp.extra.items():
                if not exp_ok(e_x, k in keys, keys.get(k)):
                    viol(f"extra-{e_x[0]}", f"mapping view {keys!r}: unknown key {k!r} expected {e_x}")
                    break
            else:
                stray = set(keys) - known - set(exp.extra)
                if stray:
                    viol("stray-key", f"mapping view {keys!r} has keys {sorted(stray)} that no rule puts there")
    if nontrivial:
        acc.nontrivial_add((base, tags, optk, data_expr))
    if acc.states % 2503 == 0:
        acc.sample(dict(decl=f"{base}[{','.join(tags)}] Options({cexpr})", runtime=rexpr, input=data_expr,
                        failfast=outs[0][0], collecting=outs[1][0],
                        expected_errors=sorted(map(repr, exp.must))))


def _kinds(errs):
    return ",".join(sorted({k for k, _ in errs}))


def _script(src, cexpr, rexpr, data_expr, tags, opts, items):
    return "\n".join([
        "import sys", "sys.path.insert(0, '/verif')", "from utmc.ns import *", "from utmc import dcmodel as M",
        "from utmc.props import c05",
        src,
        f"tags = {tags!r}; items = {items!r}; opts = {_opts_repr(opts)}",
        "fields = c05.bind_fields(tags)",
        "acc = c05.Acc()",
        f"c05._one_case(acc, {('Schema' if 'Schema' in src.splitlines()[0] else 'DataClass')!r}, tags, fields, S, {src!r}, "
        f"{cexpr!r}, {rexpr!r}, opts, items)",
        "for fp, vs in acc.violations.items():", "    print(fp); print('  ', vs[0].summary)",
        "sys.exit(1 if acc.violations else 0)"]) + "\n"


def _opts_repr(opts):
    return "{" + ", ".join(f"{k!r}: {('int' if v is int else repr(v))}" for k, v in opts.items()) + "}"
