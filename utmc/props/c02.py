"""C02 — validation is exact on well-typed values and agrees with isinstance.

E1: every constraint set the library accepts (singles and legal pairs; triples when thorough) x every value
of the source type in a window around every bound. T(v) succeeds <=> all reference constraints hold, the result
equals the input, isinstance(v, T) gives the same verdict.
"""
import itertools
import math
from decimal import Decimal

from ..core import Acc, bootstrap

bootstrap()
from ..universe import ev  # noqa: E402
from ..canon import canon, short  # noqa: E402
from ..refcons import ref_constraint  # noqa: E402
from ..core import call_guarded  # noqa: E402
from utype.utils import exceptions as uexc  # noqa: E402
from utype import type_transform  # noqa: E402

ID = "C02"
LEVEL = "model_checking"
RULE = ("all constraint sets (single constraints, all legal pairs; triples in the thorough tier) over the bound "
        "alphabets, declared as class R(origin, Rule), x all values of the source type in the windows (ints -12..12 "
        "and 10^k+-1, floats k/4 and nextafter around bounds and +-0.0/inf/nan, Decimals m*10^e, all strings over "
        "{a,b,0,1,.} up to length 4, all lists/tuples over {0,1,True,1.0,'1'} up to length 3, sets/dicts up to size 3); "
        "a case is non-trivial when the reference verdict is 'reject' or at least two constraints are declared")
ASSUMPTIONS = [
    "reference semantics of each constraint: utmc/refcons.py, written from docs/en/references/rule.md; cases the "
    "documentation does not decide (ref_constraint -> None) are skipped and counted",
    "const / enum are only enumerated alone (the library documents in code that they override other constraints)",
    "float multiple_of bounds are dyadic so that float % is exact",
    "contains/min_contains/max_contains count the elements the contained type accepts, measured by calling the "
    "contained type alone on the real code (black-box leaf)",
]

INT_BOUNDS = ["-1", "0", "1", "2", "10"]
FLOAT_BOUNDS = ["-1.0", "0.0", "0.5", "1.0", "2.5", "10.0"]
DEC_BOUNDS = ["Decimal('-1')", "Decimal('0')", "Decimal('0.5')", "Decimal('1')", "Decimal('10')"]


def fam(origin):
    """constraint families for an origin: {family: [(name, boundexpr), ...]}"""
    f = {}
    if origin in ("int", "float", "Decimal"):
        b = {"int": INT_BOUNDS, "float": FLOAT_BOUNDS, "Decimal": DEC_BOUNDS}[origin]
        f["lower"] = [(n, x) for n in ("gt", "ge") for x in b]
        f["upper"] = [(n, x) for n in ("lt", "le") for x in b]
        f["multiple_of"] = [("multiple_of", x) for x in (["1", "2", "3", "10"] if origin != "float" else ["0.5", "0.25", "2", "3"])]
        if origin == "Decimal":
            f["multiple_of"] += [("multiple_of", "0.5"), ("multiple_of", "0.25")]      # a float bound on a Decimal rule
        f["max_digits"] = [("max_digits", str(i)) for i in (1, 2, 3, 4)]
        if origin != "int":
            f["decimal_places"] = [("decimal_places", str(i)) for i in (0, 1, 2, 3)]
        f["length"] = [("length", "2"), ("max_length", "2"), ("min_length", "2"), ("max_length", "3")]
        f["regex"] = [("regex", "'-?[0-9]+'"), ("regex", "'[0-9]{2}'"), ("regex", "'1.*'")]
        # constants whose type is a *subclass* of the value's type (True, MyInt(1)) must not accept the plain value
        c = {"int": ["0", "1", "1.0", "Decimal('1')", "-1", "True", "False", "MyInt(1)", "Num.ONE"],
             "float": ["0", "1", "1.0", "0.5", "Decimal('1')", "-0.0", "True"],
             "Decimal": ["Decimal('1')", "1", "1.0", "Decimal('1.0')", "Decimal('0')"]}[origin]
        f["const"] = [("const", x) for x in c]
        e = {"int": ["[1, 2, 3]", "[0]", "(1, 7)", "{1.0, 5}", "Num", "Perm"], "float": ["[float('inf'), float('-inf')]", "[0.5, 1]"],
             "Decimal": ["[Decimal('1'), Decimal('2.50')]"]}[origin]
        f["enum"] = [("enum", x) for x in e]
    elif origin in ("str", "bytes"):
        f["length"] = [("length", str(i)) for i in (0, 1, 2, 3)]
        f["min_length"] = [("min_length", str(i)) for i in (1, 2, 3)]
        f["max_length"] = [("max_length", str(i)) for i in (1, 2, 3)]
        if origin == "str":
            f["regex"] = [("regex", r) for r in ("'a+'", "'[0-9]{2}'", "'a|ab'", "'(a|b)*'", "''", "'a'", "'.'", "'^a$'")]
            f["const"] = [("const", x) for x in ("'a'", "'ab'", "''", "'1'", "MyStr('a')", "Color.RED")]
            f["enum"] = [("enum", x) for x in ("['a', 'b']", "['', '1']", "('ab',)", "Color", "Tricky")]
        else:
            f["const"] = [("const", "b'a'")]
    elif origin in ("list", "tuple"):
        f["length"] = [("length", str(i)) for i in (0, 1, 2, 3)]
        f["min_length"] = [("min_length", str(i)) for i in (1, 2, 3)]
        f["max_length"] = [("max_length", str(i)) for i in (1, 2, 3)]
        f["unique_items"] = [("unique_items", "True")]
        if origin == "list":
            f["enum"] = [("enum", "ListE"), ("enum", "[[0], [1, 2]]")]
        f["contains"] = [("contains", c) for c in ("int", "RC(int, const=1)", "str", "RC(None, const=1)")]
        f["min_contains"] = [("min_contains", "1"), ("min_contains", "2")]
        f["max_contains"] = [("max_contains", "1"), ("max_contains", "2")]
    elif origin in ("set", "dict", "frozenset"):
        f["length"] = [("length", str(i)) for i in (0, 1, 2, 3)]
        f["min_length"] = [("min_length", str(i)) for i in (1, 2, 3)]
        f["max_length"] = [("max_length", str(i)) for i in (1, 2, 3)]
    elif origin == "None":
        # a rule without an origin type: const / enum are all it can declare about the value (None is a legal constant)
        f["const"] = [("const", x) for x in ("None", "0", "'a'", "False", "()")]
        f["enum"] = [("enum", x) for x in ("[1, 'a', None]", "[None]", "['', 0]")]
    elif origin == "datetime":
        f["lower"] = [(n, "datetime(2020,1,2,3,4,5)") for n in ("gt", "ge")]
        f["upper"] = [(n, "datetime(2020,1,3)") for n in ("lt", "le")]
    elif origin == "date":
        f["lower"] = [(n, "date(2020,1,2)") for n in ("gt", "ge")]
        f["upper"] = [(n, "date(2020,1,4)") for n in ("lt", "le")]
    elif origin == "timedelta":
        f["lower"] = [(n, "timedelta(0)") for n in ("gt", "ge")]
        f["upper"] = [(n, "timedelta(seconds=5)") for n in ("lt", "le")]
    return f


ORIGINS = ["int", "float", "Decimal", "str", "bytes", "list", "tuple", "set", "frozenset", "dict", "datetime", "date",
           "timedelta", "None"]
SOLO = ("const", "enum")
# length constraints on lengthless (numeric) types are validated on str(value) (documented, with a warning at
# declaration); combined with constraints that re-quantise the value the documentation does not say which
# spelling is measured, so they are only enumerated alone for numeric origins
NUMERIC = ("int", "float", "Decimal")
# contains-family members only make sense together with `contains`
NEEDS_CONTAINS = ("min_contains", "max_contains")


def constraint_sets(origin, arity):
    fams = fam(origin)
    names = sorted(fams)
    out = []
    for n in range(1, arity + 1):
        for combo in itertools.combinations(names, n):
            if n > 1 and any(c in SOLO for c in combo):
                continue
            if n > 1 and origin in NUMERIC and "length" in combo:
                continue
            if any(c in NEEDS_CONTAINS for c in combo) and "contains" not in combo:
                continue
            if sum(1 for c in combo if c in ("length", "min_length", "max_length")) > 1 and "length" in combo:
                continue
            for choice in itertools.product(*[fams[c] for c in combo]):
                out.append(tuple(choice))
    return out


def windows(origin, cons):
    """value expressions of the source type around every bound"""
    if origin == "None":
        return ["None", "0", "1", "'a'", "''", "False", "True", "1.0", "0.0", "[]", "()", "'None'", "b'a'", "{}"]
    if origin == "int":
        vals = list(range(-12, 13)) + [99, 100, 101, 999, 1000, 1001, 9999, 10000, 10001, -99, -100, -1000, 10 ** 20]
        # bool is its own primitive group: True/False given to an int type are *converted* (to 1/0), so they are
        # not "values that already have the source type" in the sense of the statement
        return [repr(v) for v in vals]
    if origin == "float":
        vals = {k / 4 for k in range(-48, 49)}
        for c, b in cons:
            try:
                bv = ev(b)
            except Exception:
                continue
            if isinstance(bv, (int, float)) and not isinstance(bv, bool):
                bv = float(bv)
                vals.update([bv, math.nextafter(bv, math.inf), math.nextafter(bv, -math.inf)])
        out = [repr(v) for v in sorted(vals)]
        out += ["-0.0", "float('inf')", "float('-inf')", "float('nan')", "1e22", "5e-324", "0.001", "123.456", "99.99",
                "100.0", "1e-07", "0.1", "0.30000000000000004", "1234.5", "9.999"]
        return out
    if origin == "Decimal":
        out = []
        seen = set()
        for e in (-3, -2, -1, 0, 1, 2):
            for m in range(-120, 121):
                s = "Decimal('%dE%d')" % (m, e)
                out.append(s)
        out += ["Decimal('1.0')", "Decimal('1.00')", "Decimal('1.500')", "Decimal('0.0')", "Decimal('-0')", "Decimal('NaN')",
                "Decimal('Infinity')", "Decimal('-Infinity')", "Decimal('0.0123')", "Decimal('123.456')", "Decimal('1E+3')",
                "Decimal('99.99')", "Decimal('100.00')", "Decimal('0.10')"]
        return out
    if origin == "str":
        out = []
        for n in range(0, 5):
            for combo in itertools.product("ab01.", repeat=n):
                out.append(repr("".join(combo)))
        return out + ["'-1'", "'12'", "'a\\n'", "'\\na'", "'ab\\n'", "'A'"]
    if origin == "bytes":
        out = []
        for n in range(0, 5):
            for combo in itertools.product("a0", repeat=n):
                out.append("b" + repr("".join(combo)))
        return out
    if origin in ("list", "tuple"):
        elems = ["0", "1", "True", "1.0", "'1'"]
        out = []
        for n in range(0, 4):
            for combo in itertools.product(elems, repeat=n):
                inner = ", ".join(combo)
                out.append(f"[{inner}]" if origin == "list" else f"({inner}{',' if n == 1 else ''})")
        out += ["[float('nan'), float('nan')]" if origin == "list" else "(float('nan'), float('nan'))",
                "[[1], [1]]" if origin == "list" else "([1], [1])", "[None, None]" if origin == "list" else "(None, 0)"]
        # unhashable items: equal ones that print differently, different ones, a string that looks like the repr of an item
        more = ["[[1], [1.0]]", "[[True], [1]]", "[{'a': 1, 'b': 2}, {'b': 2, 'a': 1}]", "['[1]', [1]]", "[[1], [2]]", "[{'a': 1}, {'a': 2}]",
                "[{1}, {1.0}]", "[[1, [2]], [1, [2]]]", "[[], []]", "[[], {}]"]
        out += more if origin == "list" else ["(" + m[1:-1] + ")" for m in more]
        return out
    if origin in ("set", "frozenset"):
        elems = ["0", "1", "'a'", "2.5"]
        out = []
        for n in range(0, 4):
            for combo in itertools.combinations(elems, n):
                inner = ", ".join(combo)
                s = "{" + inner + "}" if n else "set()"
                out.append(s if origin == "set" else f"frozenset({s})")
        return out
    if origin == "dict":
        out = ["{}"]
        keys = ["'a'", "'b'", "1", "None"]
        for n in range(1, 4):
            for combo in itertools.combinations(keys, n):
                out.append("{" + ", ".join(f"{k}: 0" for k in combo) + "}")
        return out
    if origin == "datetime":
        return ["datetime(2020,1,2,3,4,5)", "datetime(2020,1,2,3,4,4,999999)", "datetime(2020,1,2,3,4,5,1)", "datetime(2020,1,3)",
                "datetime(2020,1,2,23,59,59,999999)", "datetime(2020,1,3,0,0,0,1)", "datetime(1,1,1)", "datetime(9999,12,31)"]
    if origin == "date":
        return ["date(2020,1,1)", "date(2020,1,2)", "date(2020,1,3)", "date(2020,1,4)", "date(2020,1,5)", "date(1,1,1)"]
    if origin == "timedelta":
        return ["timedelta(0)", "timedelta(microseconds=-1)", "timedelta(microseconds=1)", "timedelta(seconds=5)",
                "timedelta(seconds=5, microseconds=1)", "timedelta(seconds=4, microseconds=999999)", "timedelta(days=-1)"]
    return []


def bounds(tier):
    ar = 3 if tier == "thorough" else 2
    return dict(origins=ORIGINS, constraint_sets={o: len(constraint_sets(o, ar))
                                                  for o in ORIGINS},
                arity=ar)


def _arity(origin, tier):
    if tier == "thorough":
        return 3
    return 2


CHUNK = 40


def shards(tier):
    out = []
    for o in ORIGINS:
        n = len(constraint_sets(o, _arity(o, tier)))
        ch = CHUNK if o != "Decimal" else 12
        if tier == "thorough":
            ch *= 3
        for i in range(0, n, ch):
            out.append((o, i, min(i + ch, n)))
    return out


def _enum_class(cons):
    import enum as _enum
    for c, b in cons:
        if c == "enum":
            bv = ev(b)
            if isinstance(bv, _enum.EnumMeta):
                return bv
    return None


def decl_expr(origin, cons, inherited=False):
    if inherited == "annotated":
        # the first constraint in a rule of its own, the others declared on top of it through Rule.annotate
        # (what a field typed with that rule and given Field(<constraints>) does)
        return "RA(RC(%s, %s=%s), %s)" % (origin, cons[0][0], cons[0][1], ", ".join(f"{c}={b}" for c, b in cons[1:]))
    if inherited:
        # every constraint in a rule of its own, combined by inheritance with an empty body
        return "RM(%s, %s)" % (origin, ", ".join(f"dict({c}={b})" for c, b in cons))
    return "RC(%s, %s)" % (origin, ", ".join(f"{c}={b}" for c, b in cons))


def accepts_leaf(leaf, x):
    try:
        type_transform(x, leaf)
        return True
    except Exception:
        return False


def reference(origin, cons, v):
    """-> True / False / None(undecided by documentation)"""
    contained = None
    verdict = True
    for c, b in cons:
        if c == "contains":
            contained = ev(b)
    count = None
    if contained is not None:
        count = sum(1 for x in v if accepts_leaf(contained, x))
    # documented (rule.md, decimal_places): for a Decimal source the value is first completed to the declared
    # number of places (Decimal('123.4') -> Decimal('123.40')), and the constraints validated after
    # decimal_places (multiple_of, max_digits, lengths: the order of Rule.__constraints__) see that value
    ORDER = ["gt", "ge", "lt", "le", "const", "enum", "regex", "decimal_places", "multiple_of", "max_digits", "length",
             "max_length", "min_length", "unique_items", "contains", "min_contains", "max_contains"]
    cons = sorted(cons, key=lambda cb: ORDER.index(cb[0]))
    for c, b in cons:
        if c == "decimal_places" and isinstance(v, Decimal) and v.is_finite():
            r = ref_constraint(c, ev(b), v)
            if r:
                v = v.quantize(Decimal(1).scaleb(-ev(b)))
            if r is False:
                verdict = False
            continue
        if c == "contains":
            r = count >= 1
        elif c == "min_contains":
            r = count >= ev(b)
        elif c == "max_contains":
            r = count <= ev(b)
        else:
            r = ref_constraint(c, ev(b), v)
        if r is None:
            return None
        if r is False:
            verdict = False
    return verdict


def same(result, v):
    if type(result) is not type(v):
        return False
    try:
        if result == v:
            return True
    except Exception:
        pass
    return canon(result) == canon(v)


_INHERITED = [False]


def script(origin, cons, vx, expected, check):
    _decl = decl_expr(origin, cons, _INHERITED[0])
    return "\n".join([
        "import sys", "sys.path.insert(0, '/verif')", "from utmc.ns import *",
        f"T_ = {_decl}", f"v = {vx}",
        "try:", "    r = T_(v); ok = True", "except exc.ParseError as e:", "    r = e; ok = False",
        "inst = isinstance(v, T_)",
        f"print('declared', {_decl!r}, 'value', repr(v), '-> accepted' if ok else '-> rejected', repr(r)[:200], 'isinstance:', inst)",
        f"print('reference verdict (documented constraint semantics):', {expected!r})",
        f"bad = {check}",
        "sys.exit(1 if bad else 0)"]) + "\n"


def run_shard(shard, tier):
    origin, lo, hi = shard
    acc = Acc()
    sets = constraint_sets(origin, _arity(origin, tier))[lo:hi]
    work = [(cons, False) for cons in sets]
    # pairs of different constraints once more, inherited from two rules (every 3rd pair in the quick tier)
    work += [(cons, True) for i, cons in enumerate(sets) if len(cons) == 2 and len({c for c, _ in cons}) == 2
             and (tier == "thorough" or i % 3 == 0)]
    work += [(cons, "annotated") for i, cons in enumerate(sets) if len(cons) >= 2 and len({c for c, _ in cons}) == len(cons)
             and not any(c in SOLO for c, _ in cons) and (tier == "thorough" or i % 3 == 1)
             # decimal_places completes the value first; in which spelling an outer rule's regex / length then sees it is
             # not documented for nested rules
             and not any(c == "decimal_places" for c, _ in cons)]
    for cons, inherited in work:
        dx = decl_expr(origin, cons, inherited)
        _INHERITED[0] = inherited
        try:
            T = ev(dx)
        except Exception as e:
            acc.extra["constraint_sets_rejected_at_declaration"] += 1
            continue
        acc.extra["constraint_sets_accepted"] += 1
        names = ",".join(c for c, _ in cons) + ("@annotated" if inherited == "annotated" else "@inherited" if inherited else "")
        for vx in windows(origin, cons):
            v = ev(vx)
            exp = reference(origin, cons, v)
            acc.states += 1
            if exp is None:
                acc.extra["undecided_by_documentation"] += 1
                continue
            st, payload = call_guarded(lambda: T(ev(vx)), wall_s=2.0, step_budget=400_000)
            acc.transitions += 1
            acc.evaluations += 1
            if st == "ok":
                got = True
            elif st == "exc" and isinstance(payload, uexc.ParseError):
                got = False
            else:
                acc.outcomes["other-exception"] += 1
                fp = f"C02|{origin}|{names}|escape:{type(payload).__name__ if st == 'exc' else 'nonterm'}"
                acc.violation(fp, f"{dx}({vx}) raised {short(payload)} instead of a verdict",
                              script(origin, cons, vx, exp, "False") .replace("except exc.ParseError as e:", "except exc.ParseError as e:")
                              .replace("bad = False", "bad = True"))
                continue
            acc.outcomes["accept" if got else "reject"] += 1
            if (not exp) or len(cons) > 1:
                acc.nontrivial_add((origin, cons, vx))
            vshape = _vshape(v)
            if got != exp:
                fp = f"C02|{origin}|{names}|{'accepted-invalid' if got else 'rejected-valid'}|{vshape}"
                acc.violation(fp, f"{dx}({vx}) {'accepted' if got else 'rejected'} but the documented constraints "
                                  f"{'do not hold' if got else 'hold'}",
                              script(origin, cons, vx, exp, f"ok != {exp!r}"),
                              dict(decl=dx, value=vx, expected=exp, got=got))
            elif got and _enum_class(cons) is not None and same(payload, _enum_class(cons)(v).value):
                # an Enum class as the enum constraint yields EnumClass(value).value (documented in the code); for a Flag
                # that is the canonical value of the member (Perm(-8) is Perm(0))
                acc.extra["enum_class_canonical_value"] += 1
            elif got and not same(payload, v):
                fp = f"C02|{origin}|{names}|altered|{vshape}"
                acc.violation(fp, f"{dx}({vx}) returned {short(payload)} ({type(payload).__name__}), not the input",
                              script(origin, cons, vx, exp, "ok and not (type(r) is type(v) and (r == v or (r != r and v != v)))"),
                              dict(decl=dx, value=vx, result=short(payload)))
            # isinstance agreement (a rule without an origin has no source type to speak of: isinstance is False by design)
            if origin == "None":
                continue
            try:
                inst = isinstance(v, T)
            except Exception as e:
                inst = e
            acc.transitions += 1
            if inst is not exp and not (isinstance(inst, bool) and inst == exp):
                fp = f"C02|{origin}|{names}|isinstance-{'true' if inst is True else 'false' if inst is False else 'raised'}|{vshape}"
                acc.violation(fp, f"isinstance({vx}, {dx}) is {short(inst)} but the constraints "
                                  f"{'hold' if exp else 'do not hold'}",
                              script(origin, cons, vx, exp, f"inst != {exp!r}"))
            if acc.states % 2999 == 0:
                acc.sample(dict(decl=dx, value=vx, reference=exp, library=got))
    return acc


def _vshape(v):
    if isinstance(v, bool):
        return "bool"
    if isinstance(v, float):
        if v != v:
            return "nan"
        if v in (math.inf, -math.inf):
            return "inf"
        if v == 0 and math.copysign(1, v) < 0:
            return "negzero"
        return "float"
    if isinstance(v, Decimal):
        if v.is_nan():
            return "dnan"
        if v.is_infinite():
            return "dinf"
        if v == 0 and v.as_tuple().exponent > 0:
            return "dzero-exp+"
        return "Decimal" + ("-exp+" if v.as_tuple().exponent > 0 else "")
    if isinstance(v, (list, tuple)):
        return type(v).__name__ + ("-nan" if any(isinstance(x, float) and x != x for x in v) else "")
    return type(v).__name__
