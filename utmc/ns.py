"""Vocabulary in which declarations and input values are written as Python expressions.

Everything the explorers feed to utype is an *expression string* evaluated in this
namespace, so that every explored case can be written into a replay script verbatim
(`from utmc.ns import *`).
"""
import sys as _sys, os as _os, warnings as _warnings
_src = _os.environ.get("UTYPE_SRC", "/repo")
if _sys.path[0] != _src:
    _sys.path.insert(0, _src)
_warnings.simplefilter("ignore")

import collections
import datetime as _dt
import decimal
import enum
import fractions
import io
import math
import typing
import uuid
from collections import deque, OrderedDict
from collections.abc import Sequence, Mapping, Iterable, Iterator
from datetime import date, datetime, time, timedelta, timezone
from decimal import Decimal
from enum import Enum
from fractions import Fraction
from typing import (Any, Dict, FrozenSet, List, Optional, Set, Tuple, Union, Literal, Type, Callable,
                    Generator, AsyncGenerator)
from uuid import UUID
from xml.etree.ElementTree import Element

import utype
from utype import Field, Param, Options, Rule, Lax, Schema, DataClass, exc, type_transform
from utype import types
from utype.types import (Int, Float, Str, Bool, Null, PositiveInt, NaturalInt, PositiveFloat, NegativeFloat,
                         NegativeInt, Array, Object, SlugStr, EmailStr, Month, Year, Day, Zero)
from utype.parser.rule import LogicalType
from utype.schema import LogicalMeta

NoneType = type(None)


class Color(str, Enum):
    RED = "red"
    GREEN = "green"


class Num(int, Enum):
    ONE = 1
    TWO = 2


class Tricky(Enum):
    # member names collide with the *other* member's value
    A = "B"
    B = "A"


class Plain(Enum):
    X = 1
    Y = "y"


class LabeledEnum(Enum):
    """a project-wide enum base without members (helpers only)"""

    def label(self):
        return self.name.lower()


class Prio(LabeledEnum):
    LOW = 1
    HIGH = 2


class Perm(enum.Flag):
    """composite values (Perm(6) == R|W) are members although they are not listed"""
    R = 4
    W = 2
    X = 1


class ListE(Enum):
    """members with unhashable values"""
    P = [0]
    Q = [1, 2]


class MyInt(int):
    pass


class MyStr(str):
    pass


class MyList(list):
    pass


class MyDict(dict):
    pass


class Unreg:
    """A class utype has no converter for (unresolved type)."""

    def __init__(self, v=None):
        self.v = v

    def __eq__(self, other):
        return type(other) is Unreg and other.v == self.v

    def __hash__(self):
        return hash(("Unreg", repr(self.v)))

    def __repr__(self):
        return f"Unreg({self.v!r})"


class BadStr:
    def __str__(self):
        raise RuntimeError("BadStr.__str__")

    __repr__ = object.__repr__


class BadRepr:
    def __repr__(self):
        raise RuntimeError("BadRepr.__repr__")

    def __str__(self):
        return "bad-repr"


class BadLen:
    def __len__(self):
        raise RuntimeError("BadLen.__len__")


class BadEq:
    def __eq__(self, other):
        raise RuntimeError("BadEq.__eq__")

    __hash__ = object.__hash__


def gen(*items):
    """one-shot generator"""
    for i in items:
        yield i


def nested_list(depth, leaf=1):
    v = leaf
    for _ in range(depth):
        v = [v]
    return v


def nested_dict(depth, key="a", leaf=1):
    v = leaf
    for _ in range(depth):
        v = {key: v}
    return v


def self_list():
    l = [1]
    l.append(l)
    return l


def self_dict(key="a"):
    d = {}
    d[key] = d
    return d


def elem(**attrib):
    return Element("e", attrib)


UUID1 = UUID("12345678-1234-5678-1234-567812345678")
TZ530 = timezone(timedelta(hours=5, minutes=30))
TZM5 = timezone(timedelta(hours=-5))


# ---- declaration helpers -----------------------------------------------------------------

def GEN(name):
    """a class-level alias_from_generator: every field without an alias_from of its own also answers to <name>_gen"""
    return name + "_gen"


def T(ann, **constraints):
    """The type utype builds for an annotation (what a field / parameter annotation goes through)."""
    return Rule.parse_annotation(annotation=ann, constraints=constraints or None)


def RC(origin, _name="R", **attrs):
    """class R(origin, Rule): <attrs>   (the 'Rule mixin' declaration)"""
    bases = (origin, Rule) if origin is not None else (Rule,)
    return LogicalType(_name, bases, dict(attrs))


def RM(origin, *parts):
    """class M(origin, P0, P1, ...): pass   with Pi = class Pi(Rule): <parts[i]> -- constraints inherited from several
    rules, none declared in the body"""
    bases = tuple(LogicalType("P%d" % i, (Rule,), dict(p)) for i, p in enumerate(parts))
    return LogicalType("M", ((origin,) if origin is not None else ()) + bases, {})


def SETA(obj, x, item=False):
    """attribute / item assignment of field a, then the stored value (a forced-error context: the assignment raises)"""
    if item:
        obj["a"] = x
    else:
        obj.a = x
    return dict.__getitem__(obj, "a") if isinstance(obj, dict) else obj.__dict__["a"]


def AFTER_USE(t, op, other):
    """t, after it was used as the left and as the right operand of `op` (building a new type must not change an operand)"""
    import operator
    f = {"|": operator.or_, "^": operator.xor, "&": operator.and_}[op]
    f(t, other)
    f(other, t)
    return t


def RA(rule, **cons):
    """Rule.annotate(rule, constraints=...): further constraints declared on top of an existing rule class"""
    return Rule.annotate(rule, constraints=cons) if cons else rule


def RO(origin, _name="R", **attrs):
    """class R(Rule): __origin__ = origin; <attrs>"""
    return LogicalType(_name, (Rule,), dict(__origin__=origin, **attrs))


def SC(_name="S", _base=Schema, _options=None, **fields):
    """Builds a data class the way a class statement does.
    fields: name=(annotation,) | (annotation, default)"""
    ann, attrs = {}, {}
    for k, v in fields.items():
        if not isinstance(v, tuple):
            v = (v,)
        ann[k] = v[0]
        if len(v) > 1:
            attrs[k] = v[1]
    attrs["__annotations__"] = ann
    attrs["__module__"] = __name__
    attrs["__qualname__"] = _name
    if _options is not None:
        attrs["__options__"] = _options
    return type(_base)(_name, (_base,), attrs)


def SC3(_name="S", _base=Schema, _options=None, **fields):
    """the same declaration spread over three levels: the grandparent annotates every field, the class in between
    mentions none of them, the leaf re-declares only the defaults (without annotations)"""
    top = SC("G", _base, _options, **{k: ((v[0],) if isinstance(v, tuple) else (v,)) for k, v in fields.items()})
    mid = type(top)("M", (top,), {"__module__": __name__, "__qualname__": "M"})
    attrs = {k: v[1] for k, v in fields.items() if isinstance(v, tuple) and len(v) > 1}
    attrs.update(__module__=__name__, __qualname__=_name)
    return type(top)(_name, (mid,), attrs)


Schema3, DataClass3 = Schema, DataClass      # names of the three-level variants of a declaration (see spec.ann_expr)


def any_of(*a):
    return LogicalType.any_of(*a)


def one_of(*a):
    return LogicalType.one_of(*a)


def all_of(*a):
    return LogicalType.all_of(*a)


def not_of(a):
    return LogicalType.not_of(a)


def dccall(cls, x):
    """construct a data class the way user code does: keyword arguments for a string-keyed dict"""
    if isinstance(x, dict) and all(isinstance(k, str) for k in x):
        return cls(**x)
    return cls(x)


def tt(x, t, **opts):
    return type_transform(x, t, options=Options(**opts) if opts else None)


__all__ = [k for k in list(globals()) if not k.startswith("_")]


# history prefix of every exploration: an unrelated type was declared with @utype.apply earlier in the process (the flag
# that switches validation off for instances of an applied type must stay on that type)
@utype.apply(ge=0)
class AppliedNat(int):
    pass
