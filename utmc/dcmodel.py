"""Reference model of the documented data-class field contract (docs/en/references/field.md, options.md)
and the declaration / input universe shared by C05, C06 and C10.

The model is written from the documentation, not from utype/parser/base.py.  Where the documentation does not
decide an outcome the model answers with *don't care* sets instead of an expectation:

    must      errors (kind, item) that have to be reported when all errors are collected
    may       errors that may or may not be reported
    must_any  groups of errors of which at least one has to be reported
    keys      output name -> Exp   (expected mapping view)
    attrs     attribute name -> Exp (expected attribute view)

Exp is ('v', value) | ('absent',) | ('any',) | ('oneof', [values...]) | ('absent_or', value)
"""
import itertools

ABSENT = ("absent",)
ANY = ("any",)

# value tokens used in inputs: expression -> (parsed int | None when invalid)
VALS = {"1": 1, "2": 2, "'3'": 3, "3": 3, "'x'": None, "'1'": 1, "0": 0, "False": 0}


class FD:
    """one field declaration (all fields are annotated `int`)"""

    def __init__(self, tag, expr=None, plain_default=None, required=True, default=ABSENT, defer=False, alias=None,
                 alias_from=(), ci=None, no_input=None, no_output=None, mode=None, deps=(), on_error=None, ann="int"):
        self.tag = tag
        self.ann = ann                      # annotation text (int, or a wrapper of it such as typing.Final[int])
        self.expr = expr                    # Field(...) expression template; {n} is the field name
        self.plain_default = plain_default  # `a: int = 7`
        self.required = required
        self.default = default              # ABSENT or ('v', value)
        self.defer = defer
        self.alias = alias                  # template
        self.alias_from = tuple(alias_from)
        self.ci = ci
        self.no_input = no_input            # None | True | 'w' | ('pred', fn)
        self.no_output = no_output
        self.mode = mode
        self.deps = tuple(deps)
        self.on_error = on_error

    def bind(self, name, other=None):
        return BoundField(self, name, other)


class BoundField:
    def __init__(self, fd: FD, name, other):
        self.fd = fd
        self.name = name
        self.alias = fd.alias.format(n=name) if fd.alias else None
        self.alias_from = tuple(a.format(n=name) for a in fd.alias_from)
        self.out = self.alias or name
        self.deps = tuple(d.format(o=other) for d in fd.deps) if other else ()
        self.other = other

    def source(self):
        fd = self.fd
        if fd.expr:
            return f"    {self.name}: {fd.ann} = " + fd.expr.format(n=self.name, o=self.other)
        if fd.plain_default is not None:
            return f"    {self.name}: {fd.ann} = {fd.plain_default}"
        return f"    {self.name}: {fd.ann}"

    def spellings(self, opts=None):
        gen = (self.name + "_gen",) if (opts and opts.get("alias_from_generator") and not self.alias_from) else ()
        return (self.name,) + ((self.alias,) if self.alias else ()) + self.alias_from + gen


PRED2 = "(lambda v: v == 2)"


def _pred2(v):
    return v == 2


MENU = [
    FD("req"),
    FD("plain-default", plain_default="7", required=False, default=("v", 7)),
    FD("default", "Field(default=7)", required=False, default=("v", 7)),
    FD("factory", "Field(default_factory=lambda: 7)", required=False, default=("v", 7)),
    FD("optional", "Field(required=False)", required=False),
    FD("alias", "Field(alias='{n}Out')", alias="{n}Out"),
    FD("alias-from", "Field(alias_from=['{n}_old'], default=7)", alias_from=["{n}_old"], required=False, default=("v", 7)),
    FD("ci", "Field(case_insensitive=True)", ci=True),
    # ---- quick menu ends here (first 8)
    FD("alias-both", "Field(alias='{n}Out', alias_from=['{n}_old', '{n}2'], required=False)", alias="{n}Out",
       alias_from=["{n}_old", "{n}2"], required=False),
    FD("ci-alias", "Field(case_insensitive=True, alias='{n}Out', alias_from=['{n}_old'], default=7)", ci=True,
       alias="{n}Out", alias_from=["{n}_old"], required=False, default=("v", 7)),
    FD("defer", "Field(default=7, defer_default=True)", required=False, default=("v", 7), defer=True),
    FD("no-input", "Field(no_input=True)", no_input=True),
    FD("no-input-default", "Field(no_input=True, default=7)", no_input=True, required=False, default=("v", 7)),
    FD("no-input-w", "Field(no_input='w', default=7)", no_input="w", required=False, default=("v", 7)),
    FD("no-input-pred", "Field(no_input=" + PRED2 + ", default=7)", no_input=("pred", _pred2), required=False,
       default=("v", 7)),
    FD("no-output", "Field(no_output=True)", no_output=True),
    FD("no-output-r", "Field(no_output='r', default=7)", no_output="r", required=False, default=("v", 7)),
    FD("no-output-pred", "Field(no_output=" + PRED2 + ", required=False)", no_output=("pred", _pred2), required=False),
    FD("readonly", "Field(readonly=True, default=7)", mode="r", required=False, default=("v", 7)),
    FD("writeonly-req", "Field(writeonly=True)", mode="w"),
    FD("mode-ra", "Field(mode='ra', required=False)", mode="ra", required=False),
    FD("dep", "Field(required=False, dependencies=['{o}'])", required=False, deps=["{o}"]),
    FD("dep-default", "Field(default=7, dependencies=['{o}'])", required=False, default=("v", 7), deps=["{o}"]),
    FD("exclude", "Field(on_error='exclude', required=False)", required=False, on_error="exclude"),
    FD("exclude-default", "Field(on_error='exclude', default=7)", required=False, default=("v", 7), on_error="exclude"),
    FD("preserve", "Field(on_error='preserve', required=False)", required=False, on_error="preserve"),
    FD("alias-no-output", "Field(alias='{n}Out', no_output=True, default=7)", alias="{n}Out", no_output=True,
       required=False, default=("v", 7)),
    # a mode-string no_input / no_output next to the field's own mode (the documented signup_time example)
    FD("mode-wa-no-input-a", "Field(mode='wa', no_input='a', default=7)", mode="wa", no_input="a", required=False,
       default=("v", 7)),
    FD("mode-rw-no-output-w", "Field(mode='rw', no_output='w', default=7)", mode="rw", no_output="w", required=False,
       default=("v", 7)),
    # a required field whose no_input predicate ignores the value 2: that input leaves the field absent
    FD("no-input-pred-req", "Field(no_input=" + PRED2 + ")", no_input=("pred", _pred2)),
    # required in some modes only, with a default for the others
    FD("req-w-default", "Field(required='w', default=7)", required="w", default=("v", 7)),
    FD("req-aw", "Field(required='aw')", required="aw"),
    # the field's own case_insensitive=False wins over the class option
    FD("ci-off", "Field(case_insensitive=False, required=False)", ci=False, required=False),
    FD("ci-off-alias", "Field(case_insensitive=False, alias_from=['{n}_Old'], default=7)", ci=False, alias_from=["{n}_Old"],
       required=False, default=("v", 7)),
]
MENU_BY_TAG = {m.tag: m for m in MENU}
QUICK_MENU = 8

# class-level option sets: (expression, dict)
OPTION_SETS = [
    ("", {}),
    ("addition=True", dict(addition=True)),
    ("addition=False", dict(addition=False)),
    ("addition=int", dict(addition=int)),
    ("case_insensitive=True", dict(case_insensitive=True)),
    ("mode='r'", dict(mode="r")),
    ("mode='w'", dict(mode="w")),
    ("mode='a'", dict(mode="a")),
    ("ignore_required=True", dict(ignore_required=True)),
    ("no_default=True", dict(no_default=True)),
    ("force_default=9", dict(force_default=9)),
    ("defer_default=True", dict(defer_default=True)),
    ("ignore_alias_conflicts=True", dict(ignore_alias_conflicts=True)),
    ("max_params=1", dict(max_params=1)),
    ("min_params=2", dict(min_params=2)),
    ("addition=False, mode='w'", dict(addition=False, mode="w")),
    ("case_insensitive=True, addition=True", dict(case_insensitive=True, addition=True)),
    ("ignore_required=True, no_default=True", dict(ignore_required=True, no_default=True)),
    ("addition=True, max_params=2, min_params=1", dict(addition=True, max_params=2, min_params=1)),
    ("invalid_values='exclude'", dict(invalid_values="exclude")),
    ("data_first_search=True, addition=True", dict(data_first_search=True, addition=True)),
    ("data_first_search=True, addition=int", dict(data_first_search=True, addition=int)),
    # several keys of one field under ignore_alias_conflicts are keys of that field, not unknown keys
    ("ignore_alias_conflicts=True, addition=True", dict(ignore_alias_conflicts=True, addition=True)),
    ("ignore_alias_conflicts=True, addition=False", dict(ignore_alias_conflicts=True, addition=False)),
    # a class-level generator of input aliases: for the fields that declare no alias_from themselves
    ("alias_from_generator=GEN", dict(alias_from_generator="GEN")),
    ("alias_from_generator=GEN, addition=True", dict(alias_from_generator="GEN", addition=True)),
    # the exclude policy next to the options that make every field optional
    ("invalid_values='exclude', ignore_required=True", dict(invalid_values="exclude", ignore_required=True)),
    ("invalid_values='exclude', force_default=9", dict(invalid_values="exclude", force_default=9)),
    # several spellings of one field are one field: the other fields are still demanded / defaulted (data-first counts keys)
    ("data_first_search=True, ignore_alias_conflicts=True", dict(data_first_search=True, ignore_alias_conflicts=True)),
]
# option sets that are also meaningful as *runtime* options of __from__ (alias / case maps are fixed at class creation;
# the runtime addition *type* is documented to be ignored, so only None/True/False are used at run time)
RUNTIME_OK = [0, 1, 2, 5, 6, 7, 8, 9, 10, 11, 12, 13, 14, 15, 17, 18]


def class_source(base, fields, opt_expr, name="S"):
    lines = [f"class {name}({base}):"]
    if opt_expr:
        lines.append(f"    __options__ = Options({opt_expr})")
    for f in fields:
        lines.append(f.source())
    return "\n".join(lines) + "\n"


# --------------------------------------------------------------------------------------------- inputs

def field_fragments(f: BoundField, ci: bool, tier, both_orders=False, gen=False):
    """input fragments for one field: lists of (key, value-expr)"""
    sp = list(f.spellings())
    variant = f.name.upper()
    sp_all = sp + [variant]            # the case variant is a field key only when the field is case-insensitive
    if gen:
        sp_all.append(f.name + "_gen")   # a key of the field only when it declares no alias_from of its own
    out = [()]
    single_vals = ["1", "'3'", "'x'", "2"]
    for s in sp_all:
        for v in single_vals:
            out.append(((s, v),))
    pair_vals = [("1", "1"), ("1", "2"), ("'3'", "3"), ("'x'", "'x'"), ("1", "'x'"), ("'x'", "1")]
    if tier != "thorough":
        pair_vals = pair_vals[:3] + pair_vals[4:5]
    for s1, s2 in itertools.combinations(sp_all, 2):
        for v1, v2 in pair_vals:
            out.append(((s1, v1), (s2, v2)))
            if both_orders:
                out.append(((s2, v2), (s1, v1)))
    return out


# unknown keys; the falsy values (kept / converted like any other) are used with single-field classes and in the thorough tier
EXTRA_FRAGS = [(), (("zz", "1"),), (("zz", "'x'"),), (("zz", "0"),), (("zz", "False"),)]


def inputs_for(fields, ci_opt, tier, gen=False):
    per = []
    for f in fields:
        frs = field_fragments(f, ci_opt, tier, both_orders=(len(fields) == 1), gen=gen)
        if len(fields) > 1:
            # reduce: at most one pair fragment family per field in multi-field classes (quick)
            if tier != "thorough":
                frs = [fr for fr in frs if len(fr) < 2 or fr[0][0] == f.name]
        per.append(frs)
    extras = EXTRA_FRAGS if (tier == "thorough" or len(fields) == 1) else EXTRA_FRAGS[:3]
    for combo in itertools.product(*per):
        for ex in extras:
            items = [kv for fr in combo for kv in fr] + list(ex)
            yield items


def input_expr(items):
    return "{" + ", ".join(f"{k!r}: {v}" for k, v in items) + "}"


# --------------------------------------------------------------------------------------------- the model

class Expect:
    def __init__(self):
        self.must = set()
        self.may = set()
        self.must_any = []
        self.keys = {}
        self.attrs = {}
        self.extra = {}        # unknown key -> Exp
        self.unsure = False    # the documentation does not decide the verdict

    @property
    def rejects(self):
        return bool(self.must or self.must_any)


def _field_key_owner(key, fields, opts):
    for f in fields:
        names = f.spellings(opts)
        if key in names:
            return f
        ci = f.fd.ci if f.fd.ci is not None else bool(opts.get("case_insensitive"))
        if ci and key.lower() in {n.lower() for n in names}:
            return f
    return None


def _req(fd, mode):
    """required=True, or required in the modes of a mode string (documented: required='w' demands the field in mode 'w' only)"""
    if isinstance(fd.required, str):
        return bool(mode) and mode in fd.required
    return bool(fd.required)


def _listed(spec, mode):
    """no_input / no_output given as a mode string"""
    return bool(mode) and isinstance(spec, str) and mode in spec


def model(fields, opts, items):
    """fields: [BoundField]; opts: dict of the options the data is parsed with; items: [(key, value expr)]"""
    e = Expect()
    mode = opts.get("mode")
    n_in = len(dict(items))
    if opts.get("max_params") and n_in > opts["max_params"]:
        e.must.add(("ParamsExceedError", None))
    if opts.get("min_params") and n_in < opts["min_params"]:
        e.must.add(("ParamsLackError", None))
    ignore_required = bool(opts.get("ignore_required")) or "force_default" in opts
    fed = {f.name: [] for f in fields}
    unknown = []
    for k, v in items:
        f = _field_key_owner(k, fields, opts)
        if f is None:
            unknown.append((k, v))
        else:
            fed[f.name].append((k, v))
    accepted = {}      # field name -> True (value stored from input) / False / None (undecided)
    provided = {}      # field name -> provided by the input (for dependencies)
    for f in fields:
        fd = f.fd
        inactive = bool(fd.mode and mode and mode not in fd.mode)
        vals = fed[f.name]
        raw = [v for _, v in vals]
        ni = fd.no_input
        always_ni = inactive or ni is True or _listed(ni, mode)
        pred_ni = isinstance(ni, tuple)
        if pred_ni and raw:
            # the predicate sees the raw input value
            import ast
            hits = [bool(ni[1](ast.literal_eval(v))) for v in raw]
            if all(hits):
                ignored = True
            elif not any(hits):
                ignored = False
            else:
                ignored = None
        else:
            ignored = always_ni
        no = fd.no_output
        provided[f.name] = bool(raw) and not always_ni
        value = None            # Exp of the stored value
        if raw and ignored is None:
            e.unsure = True
            accepted[f.name] = None
            e.keys[f.out] = ANY
            e.attrs[f.name] = ANY
            e.may |= {("AbsenceError", f.out), ("ParseError", f.out), ("AliasConflictError", f.out)}
            continue
        if raw and not ignored:
            parsed = [VALS[v] for v in raw]
            distinct_raw = len(set(raw)) > 1
            if distinct_raw and not opts.get("ignore_alias_conflicts"):
                if len({repr(p) for p in parsed}) > 1 or None in parsed:
                    e.must_any.append({("AliasConflictError", f.out), ("ParseError", f.out)})
                    e.may |= {("AliasConflictError", f.out), ("ParseError", f.out), ("AbsenceError", f.out),
                              ("DependenciesAbsenceError", None)}
                    accepted[f.name] = None
                    continue
                # raw spellings differ but denote the same value ('3' and 3): not decided by the docs
                e.may.add(("AliasConflictError", f.out))
                e.unsure = True
            if distinct_raw and opts.get("ignore_alias_conflicts"):
                cands = parsed
            else:
                cands = parsed[:1]
            on_error = fd.on_error or opts.get("invalid_values")
            if all(c is None for c in cands):
                # invalid value
                if on_error == "preserve":
                    value = ("v", "x")
                    accepted[f.name] = True
                elif on_error == "exclude":
                    req = _req(fd, mode) and not ignore_required
                    if req:
                        e.must.add(("ParseError", f.out))
                        e.may.add(("AbsenceError", f.out))
                        accepted[f.name] = False
                        continue
                    accepted[f.name] = False
                    if fd.default is not ABSENT and not opts.get("no_default"):
                        value = ("absent_or", fd.default[1] if "force_default" not in opts else opts["force_default"])
                        if fd.defer or opts.get("defer_default"):
                            value = ("absent_or_attr", value[1])
                    else:
                        value = ABSENT if "force_default" not in opts else ("absent_or", opts["force_default"])
                else:
                    e.must.add(("ParseError", f.out))
                    e.may.add(("AbsenceError", f.out))
                    accepted[f.name] = False
                    continue
            elif any(c is None for c in cands):
                # ignore_alias_conflicts with one valid and one invalid spelling: the winner is not documented
                e.unsure = True
                e.may |= {("ParseError", f.out), ("AbsenceError", f.out)}
                accepted[f.name] = None
                e.keys[f.out] = ANY
                e.attrs[f.name] = ANY
                continue
            else:
                good = sorted({c for c in cands})
                value = ("v", good[0]) if len(good) == 1 else ("oneof", good)
                accepted[f.name] = True
        else:
            # not provided, or the input is ignored
            accepted[f.name] = False
            required = _req(fd, mode) and not ignore_required and not always_ni
            if raw and pred_ni and _req(fd, mode) and not ignore_required:
                # a required field whose only input was refused by the predicate: undocumented
                e.may.add(("AbsenceError", f.out))
                e.unsure = True
                e.keys[f.out] = ANY
                e.attrs[f.name] = ANY
                continue
            if required:
                e.must.add(("AbsenceError", f.out))
                continue
            if opts.get("no_default"):
                value = ABSENT
            elif "force_default" in opts:
                value = ("v", opts["force_default"])
                if fd.defer or opts.get("defer_default"):
                    value = ("deferred", opts["force_default"])
            elif fd.default is not ABSENT:
                value = fd.default
                if fd.defer or opts.get("defer_default"):
                    value = ("deferred", fd.default[1])
            else:
                value = ABSENT
        # ---- views
        if inactive:
            e.keys[f.out] = ABSENT
            e.attrs[f.name] = ANY
            continue
        if value[0] == "deferred":
            e.keys[f.out] = ABSENT
            e.attrs[f.name] = ("v", value[1])
            continue
        if value[0] == "absent_or_attr":
            e.keys[f.out] = ABSENT
            e.attrs[f.name] = ANY
            continue
        hidden = no is True or _listed(no, mode)
        if isinstance(no, tuple):
            if value[0] == "v":
                hidden = bool(no[1](value[1]))
            elif value is not ABSENT:
                hidden = None
        if hidden is None:
            e.keys[f.out] = ANY
        elif hidden:
            e.keys[f.out] = ABSENT
        else:
            e.keys[f.out] = value
        e.attrs[f.name] = value
    # ---- dependencies: a field stored from the input needs its dependencies provided by the input
    for f in fields:
        if not f.deps:
            continue
        acc = accepted.get(f.name)
        raw_given = bool(fed[f.name])
        if acc is False and not raw_given:
            continue                      # the field is not provided: nothing is required
        surely = [d for d in f.deps if not fed.get(d)]                      # no input at all for the dependency
        maybe = [d for d in f.deps if fed.get(d) and (not provided.get(d) or accepted.get(d) is not True)]
        if acc is True and surely:
            e.must.add(("DependenciesAbsenceError", None))
        elif surely or maybe:
            # undocumented: the field was given but excluded / ignored, or its dependency was given but
            # ignored (no_input, other mode) or invalid
            e.may.add(("DependenciesAbsenceError", None))
            e.unsure = True
    # ---- unknown keys
    addition = opts.get("addition")
    for k, v in unknown:
        if addition is None:
            e.extra[k] = ABSENT
        elif addition is True:
            e.extra[k] = ("raw", v)
        elif addition is False:
            e.must.add(("ExceedError", k))
        else:
            p = VALS[v]
            if p is None:
                iv = opts.get("invalid_values")
                if iv == "exclude":
                    e.extra[k] = ABSENT
                elif iv == "preserve":
                    e.extra[k] = ("raw", v)
                else:
                    e.must.add(("ParseError", k))
            else:
                e.extra[k] = ("v", p)
    return e
