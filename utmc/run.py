import argparse
import json
import os
import subprocess
import sys

from . import core


def main():
    ap = argparse.ArgumentParser()
    ap.add_argument("prop")
    ap.add_argument("--tier", default=os.environ.get("VERIF_TIER", "quick"), choices=["quick", "thorough"])
    ap.add_argument("--replay")
    ap.add_argument("--workers", type=int)
    ap.add_argument("--shard", type=int, action="append")
    a = ap.parse_args()
    pid = a.prop.upper()
    if a.replay:
        doc = json.load(open(a.replay))
        script = doc["script"]
        r = subprocess.run([sys.executable, "-X", "utf8", "-c", script], env=dict(os.environ))
        if r.returncode != 0:
            print(f"VIOLATION property={doc.get('property', pid)} replay={a.replay}")
            sys.exit(1)
        print("replay: violation not reproduced")
        sys.exit(0)
    seed = int(os.environ.get("VERIF_SEED", "0") or 0)
    sys.exit(core.run_property(f"utmc.props.{pid.lower()}", a.tier, seed, a.workers, a.shard))


if __name__ == "__main__":
    main()
