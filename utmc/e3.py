"""E3 — stateless schedule explorer with iterative preemption bounding over real threading.Threads.

Each thread runs real library code; sys.settrace yields *line* events only for frames of the instrumented functions
(the shared-state code of utype); at every such event the running thread reaches a scheduling point.  Exactly one
thread holds the baton (a per-thread semaphore); at a point the scheduler either lets it continue or hands the baton
to another unfinished thread, following the given choice prefix and choice 0 afterwards.

explore() is the algorithm of the brief: run a prefix, then for every later point and every alternative thread whose
preemption cost stays within the bound, recurse.  A divergence while replaying a prefix is a hard harness error.
"""
import sys
import threading


class Divergence(Exception):
    pass


_TLS = threading.local()
_CURRENT = [None]


class CoopRLock:
    """Scheduler-aware re-entrant lock.  A real lock inside the library would park a thread that the scheduler still
    counts as running (the run would hang); this one turns "wait for the lock" into a scheduling point at which the
    waiting thread is not enabled.  Outside a scheduled execution it behaves as an uncontended re-entrant lock."""

    def __init__(self):
        self.owner = None
        self.count = 0

    def acquire(self, blocking=True, timeout=-1):
        sched, tid = _CURRENT[0], getattr(_TLS, "tid", None)
        if sched is None or tid is None:
            self.count += 1
            return True
        while self.owner is not None and self.owner != tid:
            if not blocking:
                return False            # a try-lock fails at once, like threading.RLock.acquire(blocking=False)
            sched.block(tid, self)
        self.owner = tid
        self.count += 1
        return True

    def release(self):
        self.count -= 1
        if self.count <= 0:
            self.count = 0
            self.owner = None

    __enter__ = acquire

    def __exit__(self, *a):
        self.release()


class DeadlockError(BaseException):
    pass


class Point:
    __slots__ = ("enabled", "chosen", "running_enabled")

    def __init__(self, enabled, chosen, running_enabled):
        self.enabled = enabled              # thread ids in canonical order (running thread first if still enabled)
        self.chosen = chosen                # index into enabled
        self.running_enabled = running_enabled


class Execution:
    def __init__(self):
        self.points = []
        self.outcomes = {}
        self.hung = False
        self.horizon_hit = False

    @property
    def choices(self):
        return [p.chosen for p in self.points]

    def preemptions_before(self, i):
        return sum(1 for p in self.points[:i] if p.chosen > 0 and p.running_enabled)


class Scheduler:
    HORIZON = 20000

    def __init__(self, n, prefix, instrumented):
        self.n = n
        self.prefix = list(prefix)
        self.instrumented = instrumented        # set of code objects
        self.sems = [threading.Semaphore(0) for _ in range(n)]
        self.done = [False] * n
        self.blocked = {}                       # tid -> CoopRLock it waits for
        self.ex = Execution()
        self.all_done = threading.Event()
        self.lock = threading.Lock()            # protects nothing the baton does not already serialise; belt and braces

    # ---- decisions
    def choose(self, running):
        enabled = [t for t in range(self.n) if not self.done[t] and
                   (t not in self.blocked or self.blocked[t].owner is None)]
        if not enabled:
            raise DeadlockError()
        if running is not None and running in enabled:
            enabled.remove(running)
            enabled.insert(0, running)
            running_enabled = True
        else:
            running_enabled = False
        i = len(self.ex.points)
        if i < len(self.prefix):
            c = self.prefix[i]
            if c >= len(enabled):
                raise Divergence(f"prefix choice {c} at point {i} but only {len(enabled)} threads enabled")
        else:
            c = 0
        if i >= self.HORIZON:
            self.ex.horizon_hit = True
            c = 0
        self.ex.points.append(Point(enabled, c, running_enabled))
        return enabled[c]

    def point(self, tid):
        if len(self.ex.points) >= self.HORIZON and len(self.ex.points) >= len(self.prefix):
            self.ex.horizon_hit = True
            return
        nxt = self.choose(tid)
        if nxt != tid:
            self.sems[nxt].release()
            self.sems[tid].acquire()

    def block(self, tid, lock):
        """tid waits for `lock`: a scheduling point at which tid is not enabled"""
        self.blocked[tid] = lock
        try:
            nxt = self.choose(None)
        except DeadlockError:
            self.blocked.pop(tid, None)
            self.ex.hung = True
            raise
        if nxt == tid:
            self.blocked.pop(tid, None)
            return
        self.sems[nxt].release()
        self.sems[tid].acquire()
        self.blocked.pop(tid, None)

    def finish(self, tid):
        self.done[tid] = True
        if all(self.done):
            self.all_done.set()
            return
        try:
            nxt = self.choose(None)
        except DeadlockError:
            self.ex.hung = True
            self.all_done.set()
            return
        self.sems[nxt].release()

    # ---- threads
    def _thread(self, tid, body):
        self.sems[tid].acquire()
        _TLS.tid = tid
        sched = self

        def local_tracer(frame, event, arg):
            if event == "line":
                sched.point(tid)
            return local_tracer

        def global_tracer(frame, event, arg):
            if event == "call" and frame.f_code in sched.instrumented:
                return local_tracer
            return None

        try:
            sys.settrace(global_tracer)
            try:
                self.ex.outcomes[tid] = ("ok", body())
            except Divergence:
                raise
            except BaseException as e:      # noqa
                self.ex.outcomes[tid] = ("exc", e)
        finally:
            sys.settrace(None)
            _TLS.tid = None
            self.finish(tid)

    def run(self, bodies, timeout=30.0):
        threads = [threading.Thread(target=self._thread, args=(i, b), daemon=True) for i, b in enumerate(bodies)]
        _CURRENT[0] = self
        for t in threads:
            t.start()
        first = self.choose(None)
        self.sems[first].release()
        if not self.all_done.wait(timeout):
            self.ex.hung = True
            # release everybody so that the daemon threads can run to completion without the baton
            for s in self.sems:
                s.release()
        for t in threads:
            t.join(timeout=5.0)
        _CURRENT[0] = None
        return self.ex


def run_schedule(make_bodies, prefix, instrumented):
    """one execution: make_bodies() builds fresh state and returns the thread bodies"""
    bodies = make_bodies()
    return Scheduler(len(bodies), prefix, instrumented).run(bodies)


def alternatives(ex, prefix, bound):
    """choice prefixes that deviate from execution `ex` at one later point, within the preemption bound"""
    out = []
    for i in range(len(prefix), len(ex.points)):
        p = ex.points[i]
        cost = ex.preemptions_before(i) + (1 if p.running_enabled else 0)
        if cost > bound:
            continue
        for alt in range(1, len(p.enabled)):
            out.append(ex.choices[:i] + [alt])
    return out


def explore(make_bodies, instrumented, bound, check, part=(0, 1), max_schedules=None):
    """DFS over choice prefixes with preemption bounding.  check(execution, prefix) is called for every execution.
    part=(k, K): this worker explores every K-th first-level alternative starting at k (the default execution itself
    is judged by worker 0).  Returns (#schedules, max points per execution, capped?)."""
    k, parts = part
    n_sched = 0
    max_points = 0
    ex0 = run_schedule(make_bodies, [], instrumented)
    n_sched += 1
    max_points = len(ex0.points)
    if k == 0:
        check(ex0, [])
    stack = list(reversed(alternatives(ex0, [], bound)[k::parts]))
    capped = False
    while stack:
        prefix = stack.pop()
        ex = run_schedule(make_bodies, prefix, instrumented)
        n_sched += 1
        max_points = max(max_points, len(ex.points))
        if ex.choices[:len(prefix)] != prefix:
            raise Divergence(f"replaying {prefix} produced {ex.choices[:len(prefix)]}")
        check(ex, prefix)
        if max_schedules and n_sched >= max_schedules:
            capped = True
            break
        stack.extend(reversed(alternatives(ex, prefix, bound)))
    return n_sched, max_points, capped


def collect_code(modules, names):
    """code objects of the functions / methods called `names` in the given modules (including class bodies)"""
    import inspect
    out = set()
    for mod in modules:
        for _, obj in list(vars(mod).items()):
            _collect(obj, names, out, mod.__name__, 0)
    return out


def _collect(obj, names, out, modname, depth):
    import inspect
    if depth > 2:
        return
    if inspect.isfunction(obj):
        if obj.__name__ in names and obj.__module__ == modname:
            _add_code(obj.__code__, out)
    elif isinstance(obj, (classmethod, staticmethod)):
        _collect(obj.__func__, names, out, modname, depth)
    elif inspect.isclass(obj) and getattr(obj, "__module__", None) == modname:
        for _, v in list(vars(obj).items()):
            _collect(v, names, out, modname, depth + 1)


def _add_code(code, out):
    """a code object and everything nested in it (inner functions, lambdas such as sort keys, comprehensions)"""
    if code in out:
        return
    out.add(code)
    for c in code.co_consts:
        if hasattr(c, "co_code"):
            _add_code(c, out)
