"""Regenerates /verif/MANIFEST.json from the table below (python -m utmc.manifest)."""
import json
import os

VERIF = os.path.dirname(os.path.dirname(os.path.abspath(__file__)))

ALL = ["C%02d" % i for i in range(1, 21)]

# id -> (technique, level text, level note, design ref)
CHECKS = {
    "C01": ("bounded-exhaustive product-space exploration (declaration x call form x options x input) of the real "
            "parser against a type-directed conformance predicate",
            "Every declaration of the type grammar (plain, constrained via both declaration routes, shipped utype.types, "
            "Literal, generics, logical combinations, data classes) is parsed in every call form with every non-waiving "
            "option set on the whole atom alphabet plus type-directed containers; each returned value is judged by "
            "spec.conforms, which never calls utype. Input-quantified property: exhaustive over explicit alphabets built "
            "per converter branch.",
            "Trusted: spec.conforms / refcons.ref_constraint (documentation-derived). Nothing is claimed about values, "
            "nesting or declarations outside the alphabets (small-scope hypothesis).",
            "DESIGN.md §3 C01"),
    "C02": ("bounded-exhaustive enumeration of (constraint set, value of the source type) against an independent "
            "reference semantics of every documented constraint",
            "All single constraints and all legal pairs (triples in the thorough tier) over explicit bound alphabets for "
            "13 source types, each evaluated on every value of a window around every bound (ints, k/4 floats with "
            "nextafter neighbours, m*10^e Decimals, all strings over a 5-letter alphabet up to length 4, all small "
            "lists/tuples/sets/dicts): parse verdict == reference verdict, result == input, isinstance == verdict.",
            "Trusted: utmc/refcons.py (documentation-derived); documentation-undecided cases are skipped and counted.",
            "DESIGN.md §3 C02"),
    "C03": ("bounded-exhaustive product-space exploration with 2-transition chains (parse, re-parse) and a reference "
            "check of the strict form for lax constraints",
            "Every successful first parse of the C01 universe (plus every lax constraint of the lax table on the C02 "
            "value windows) is re-parsed with the same declaration and options; the second parse must succeed and give "
            "an equal value; on exact domains the output of a lax constraint must satisfy its strict form.",
            "Trusted: canon()/Python equality, refcons for the strict forms. Two design-level findings (^ and & are not "
            "idempotent in general) are recorded in known_findings.json.",
            "DESIGN.md §3 C03"),
    "C04": ("bounded-exhaustive product-space exploration with a deterministic step-budget watchdog; oracle: outcome is "
            "a value or an instance of utype.exc.ParseError",
            "Every constrained/logical/generic/data-class declaration and function context is called with the full "
            "(hostile) atom alphabet and type-directed containers under 6 (quick) / 9 (thorough) option sets; any "
            "other exception type, a function body entered on failure, or exceeding 4e5 line events is a violation.",
            "Trusted: the exception classification and the line-event budget; recorded findings in known_findings.json "
            "(hostile __str__ of a mapping key; Timestamp.pre_validate).",
            "DESIGN.md §3 C04"),
    "C05": ("bounded-exhaustive product-space exploration of the real data-class parser against a documentation-derived "
            "reference model of the field contract (mapping view, attribute view, set of reported errors)",
            "Data classes of 1-2 fields over the whole Field menu (27 entries: required / default / factory / defer / alias / "
            "alias_from / case_insensitive / no_input / no_output / mode / dependencies / on_error) x 20 class option sets "
            "x runtime options via __from__ x both base classes x every assignment of {absent, valid, convertible, other "
            "valid, invalid} to every recognised key spelling (singles and conflicting pairs) and an unknown key; each "
            "input parsed fail-fast and collecting; verdict, mapping view, attribute view and error set compared with "
            "utmc/dcmodel.py.",
            "Trusted: utmc/dcmodel.py (transcribed from docs/en/references/field.md and options.md); corners the "
            "documentation leaves open are don't-care sets and are counted in the evidence (facts.undecided_by_docs).",
            "DESIGN.md §3 C05"),
    "C06": ("bounded-exhaustive differential exploration: every configuration of the C05 universe (data classes and "
            "decorated functions) executed with data-first and field-first lookup, fail-fast and collecting",
            "Every (declaration, options, input) of the C05 universe plus the same field menu as keyword parameters of a "
            "decorated function is run four times (2 strategies x fail-fast/collecting): equal verdict, equal mapping / "
            "attribute / bound-argument views, equal sets of failing items under collection, fail-fast error among them.",
            "Differential oracle, no model. When both strategies report an alias conflict on a field the further errors "
            "about that field are not compared (they depend on which spelling each loop meets first); under "
            "ignore_alias_conflicts the winning spelling is undocumented and not compared.",
            "DESIGN.md §3 C06"),
    "C07": ("explicit-state breadth-first exploration of mutation histories on live Schema / DataClass instances with "
            "state deduplication; the statement's invariant is evaluated after every transition",
            "All histories up to depth 3 (quick) / 4 (thorough) over ~190 operations (setattr, item assignment, update, "
            "setdefault, |=, delattr, del item, pop, popitem, clear, copy-then-mutate x every key spelling x valid / "
            "convertible / invalid values) from 2 initial instances of a Schema and a DataClass with required, "
            "defaulted+constrained, optional, immutable, aliased, no_output and property fields, under 6 class option "
            "sets. After every transition: a raising operation left the data unchanged; every present field conforms; "
            "required present; immutable unchanged and present; key / attribute / `in` views agree; the dependent "
            "property is recomputed; extra keys obey the addition policy; a copy shares no state with its source.",
            "Trusted: the per-field predicates of the invariant and the claim that dict items + __dict__ are the whole "
            "instance state (restore-from-snapshot is cross-checked against history replay during the run). States that "
            "violate the invariant are reported once and not expanded.",
            "DESIGN.md §3 C07"),
    "C08": ("bounded-exhaustive exploration of (signature, context, call) against Python's own binding "
            "(inspect.signature(reference).bind) plus exhaustive consumer scripts for generator / coroutine wrappers",
            "Every signature of <= 3 (quick) / 4 (thorough) parameters over positional-only / positional-or-keyword / "
            "keyword-only x required / default / Param(alias_from) / Param(default, alias_from) / private, with and without "
            "*args:int and **kwargs:int, in 5 contexts (function, instance / class / static method, class decorator), called "
            "with every positional count 0..n+1 x every subset (<= 3 / 4) of keyword names (names, aliases, private names, an "
            "unknown name) x value patterns (exact, convertible, one invalid slot): when Python binds the call the body must "
            "receive exactly that binding with int-converted values, an invalid value must raise ParseError before the body. "
            "Generators: sync / async x lazy / eager x 3 recording bodies x every consumer script over {next, send('5'), "
            "send(7), send('x'), send(None)} up to length 4 / 5, compared step by step with the undecorated body; plain and "
            "coroutine functions: argument x return value conversion table.",
            "Trusted: Python's inspect.signature binding on the reference function and int() as the ideal conversion. Calls "
            "Python does not bind, and calls naming one parameter through two spellings, are executed but not judged.",
            "DESIGN.md §3 C08"),
    "C09": ("bounded-exhaustive exploration of combinator trees x inputs x conversion flags against the statement's model with "
            "the arguments as black boxes, plus exhaustive construction-algebra checks",
            "Every |, ^, & of 2 arguments (all ordered pairs of 16 leaves) and 3 arguments (all ordered triples of 6 / 9 "
            "leaves), every ~, and depth-2 trees with an inner combinator, applied to every address-independent atom and "
            "directed input under the 4 no_explicit_cast/no_data_loss combinations: union verdict/result/exact-type "
            "pass-through, exclusive-or verdict (exactly one argument accepts the given input; all orders are enumerated), "
            "negation verdict/identity, conjunction = left fold. Algebra: double negation, duplicates, Any absorption, "
            "operator form == function form, flattening of nested combinators, plain-class / typing.Union / data-class "
            "operands, each checked on structure and on behaviour over all atoms.",
            "Trusted: accepts(argument, x) measured on the real code (compositional for nested trees); a union is allowed to "
            "reach an argument through its documented stricter stages.",
            "DESIGN.md §3 C09"),
    "C10": ("bounded-exhaustive differential exploration (fail-fast vs collect_errors with max_errors None/1/2/3) with the set "
            "of failing top-level items computed independently, every item judged alone as a black box",
            "Data classes of both bases and decorated functions (keyword parameters, *args:int, **kwargs:int) with 1-3 fields "
            "over 11 field types (scalars, constrained, List / Tuple / Dict generics, Optional, &, ^, Union with all branches "
            "failing, nested data class, datetime) x addition None/False/int x every assignment of {absent, 4-5 candidate "
            "values} to the fields and 0-2 excess keys: equal verdict, equal value on accept, on reject exactly one "
            "CollectedParseError whose items are failing items only, no duplicates, exactly min(max_errors, #failing) of them; "
            "the function body is not entered.",
            "Trusted: 'an item fails iff its type applied alone rejects its value' (measured on the real code, cross-checked "
            "against the fail-fast verdict on every case) plus the documented absence / excess-key rules.",
            "DESIGN.md §3 C10"),
    "C11": ("bounded-exhaustive metamorphic exploration of (container type, policy combination, input container) with the "
            "element types as black boxes",
            "List / Set / FrozenSet / Tuple[..., ...] / Deque over 3 element types, Dict over 2 key x 2 value types, "
            "List[List[L]], Dict[str, List[L]], data-class fields (per-field on_error x class invalid_values x required / "
            "optional / default), extra keys with an addition type, *args -- every input container of length <= 3 / 4 over "
            "{valid, convertible, invalid, other invalid} in list / tuple / set spelling under the applicable policy "
            "combinations (all 27 for mappings in the thorough tier): throw = error iff an element offends; exclude = the "
            "other elements converted exactly as alone (and equal to strict parsing of the filtered input); preserve = the "
            "same with offending elements unchanged in place; a required field is never silently excluded; other fields untouched.",
            "Trusted: an element offends iff its type applied alone rejects it under the same options (measured on the real code).",
            "DESIGN.md §3 C11"),
    "C12": ("bounded-exhaustive enumeration of (source value, target type) x the four preference-flag combinations with one "
            "oracle per clause of the statement",
            "Every address-independent atom of the value alphabet plus 39 boundary values x 33 plain targets (builtin, "
            "standard library, Enum, user subclasses), Tuple[int] / Tuple[int,int] / Tuple[int,str] with 0..n+2 items, and "
            "data classes of both bases (flags applied through __from__ and through type_transform): (i) success under any "
            "flag set implies success without flags with an equal value of the same type; (ii) no_data_loss: exact integer "
            "value, unambiguous booleans only, no multi-element collection to a non-string scalar, strict decoding, no timed "
            "value to date, extra tuple items / unknown keys rejected; (iii) no_explicit_cast: source group == target group "
            "apart from the documented exceptions.",
            "Trusted: the reference notions exact_value / unambiguous_bool / group / has_time_part in utmc/props/c12.py, "
            "written from docs/references/options.md.",
            "DESIGN.md §3 C12"),
    "C14": ("bounded-exhaustive enumeration of (field type, container shape, boundary value) with 3-transition chains "
            "(construct, JSON-encode, strict-decode, parse back) on the real encoder and parser",
            "One data class per field type (int, float, str, bool, bytes, Decimal, date, datetime, time, timedelta, UUID, two "
            "Enums) x shape (scalar, Optional, List, Set, Tuple[..., ...], Dict[str, .], nested class, two-field class) x both "
            "base classes, instantiated with every value of the type's boundary list (348 datetime/offset/microsecond and "
            "other values, pairs and triples inside containers): json.dumps(cls=JSONEncoder) succeeds, the text is standard "
            "JSON (parse_constant raises), cls.__from__(text) returns an equal instance.",
            "Trusted: canon() equality and Python's json module as the judge of standard JSON. Two recorded findings "
            "(DataClass instances have no encoder; infinities are emitted as bare tokens).",
            "DESIGN.md §3 C14"),
    "C15": ("bounded-exhaustive enumeration of JSON Schemas from the supported-keyword grammar x JSON instances, each value "
            "returned by the built type validated against the source schema by an independent validator (jsonschema)",
            "All schemas generated from type (absent, null, boolean, integer, number, string) x format x numeric / length / "
            "pattern / enum / const keywords, arrays (items, prefixItems, items:false, min/maxItems, uniqueItems), objects "
            "(properties named a, a-b, class, 1x, items, keys, update, _p; required subsets; additionalProperties absent / "
            "true / false / schema; dependentRequired; min/maxProperties) and anyOf / oneOf / allOf pairs, nested to depth 2 "
            "(quick) / 3 (thorough) x 75 JSON instances: building the type never raises; under Options(no_explicit_cast, "
            "no_data_loss) each call raises TypeError/ValueError (ParseError) or returns a value whose JSON encoding "
            "validates against the source schema (Draft 2020-12).",
            "Trusted: the jsonschema package (installed offline by setup_cmd into /verif/.deps) as the judge; format is an "
            "annotation. Three recorded findings (allOf integer/boolean, reserved extra key names, prefixItems presence).",
            "DESIGN.md §3 C15"),
    "C13": ("bounded-exhaustive enumeration of types / data classes x views x inputs with the generated documents and the "
            "produced values judged by an independent validator (jsonschema) and the schema structure compared with observed "
            "parser behaviour",
            "Types: JSON-expressible leaves, constrained types, shipped types, Literal, generics (depth 1 / 2), |, ^, & x the "
            "atom alphabet plus directed inputs. Data classes: the 27-entry Field menu in 1- and 2-field classes of both bases "
            "x 10 class option sets (addition, case_insensitive, modes) x {input, output}; nested / recursive / mutually "
            "recursive programs with $defs. (a) every document is strict JSON and passes the Draft 2020-12 meta-schema; (b) "
            "every produced value (JSON-encoded) validates against the output schema; (c) listed properties + x-aliases == "
            "keys observed to feed a field, required == fields whose omission is observed to be an error, "
            "additionalProperties == observed fate of an unknown key.",
            "Trusted: the jsonschema package and the observation procedure of (c). Values outside the JSON-faithful domain "
            "(non-finite numbers, Decimals beyond 15 digits, integers beyond 1e300) are counted and not judged. Five recorded "
            "findings (allOf / oneOf vs sequential & / input-judging ^, Python bool-int equality).",
            "DESIGN.md §3 C13"),
    "C16": ("explicit-state exploration (DFS with state dedup) of register/resolve histories on the real "
            "TypeRegistry against a cache-free reference model",
            "All histories of register/resolve operations up to depth 4 (quick) / 5 (thorough) over a menu of "
            "registrations (classes x allow_subclasses x priority x attr x metaclass x detector) and 7 classes, on a "
            "fresh TypeRegistry(cache=True) and on the real process-wide transformer registry via "
            "register_transformer/type_transform; every resolve is compared with the reference model. "
            "History-quantified property on a tiny state (registration list + cache), so exhaustive "
            "history enumeration is the right level.",
            "Trusted: the 20-line reference model (highest priority, latest wins ties); small-scope hypothesis "
            "for histories longer than the bound and hierarchies other than A<-B<-C, D, E(metaclass), X(attr).",
            "DESIGN.md §3 C16"),
}

CHECKS_EXTRA = {
    "C20": ("stateless schedule exploration with iterative preemption bounding: real threads running real utype calls under a "
            "controlled scheduler (sys.settrace line events of the instrumented shared-state functions, one baton), every "
            "schedule within the bound executed on fresh state",
            "15 scenarios (first parse of classes with pending forward references, module level and function-local, from one "
            "end and from both ends of a mutual recursion; first calls of a decorated function with forward-referenced "
            "parameter / return types; concurrent decoration of one function; conversions racing a registration in the "
            "process-wide converter registry) x every interleaving of 2 threads with <= 1 preemption (quick) / of 2 threads "
            "with <= 2 preemptions and of 3 threads with <= 1 preemption (thorough; 3 threads with 2 preemptions is ~10^6 "
            "schedules per scenario and is not claimed): each call's outcome equals its outcome when run alone (for the registry: before or "
            "after the registration), no extra exception, no hang, and a solo call after all threads finished gives the "
            "baseline. Evidence reports schedules per scenario and scheduling points per execution.",
            "Trusted: the scheduler (replay divergence is a hard error; a failing schedule must fail again on replay). "
            "Line granularity under CPython's GIL; code outside the instrumented functions runs atomically.",
            "DESIGN.md §3 C20"),
    "C17": ("explicit enumeration of generated programs (reference graph x spelling of every reference x definition order x "
            "scope) x first-use orders x inputs, each executed in a fresh module on the real library and compared with a "
            "structural reference model",
            "6 reference graphs (self, A->B, A<->B, A->B through two fields, A->B->C->A, A->B plus a decorated function "
            "declared before both) x 9 spellings per reference (direct, 'B', List['B'], Dict[str,'B'], Optional['B'], "
            "Union['B', None], 'List[B]', any_of('B', None), postponed evaluation) x every definition order Python accepts x "
            "{module, function-local} x every first-use order x 12-15 inputs per class (nesting 0..3, valid / convertible / "
            "invalid leaf, nested mapping without its required field): verdict and nested result equal the model from the "
            "first call on. Plus two modules declaring classes of the same names in 4 declare / use orders x 6 spellings.",
            "Trusted: the 40-line structural model (what the program means with direct references). Each program runs in a "
            "fresh module with typing's caches reset, except inside the two-module scenario.",
            "DESIGN.md §3 C17"),
    "C19": ("bounded-exhaustive exploration: input snapshots over the container-valued product space, explicit enumeration "
            "of instantiate / mutate histories on declarations with mutable defaults, and all ordered call sequences on "
            "shared types compared with fresh types",
            "(a) ~330 declarations x call forms x 5 option sets x every mutable-container input (alphabet + type-directed): "
            "the deep snapshot of the input is identical before and after the call. (b) 7 declaration kinds x 6 mutable "
            "defaults x every history of length <= 4 / 5 over {new result, mutate first / last result at every nesting "
            "level}: untouched results, the declared default object and a fresh result keep the declared value. (c) every "
            "ordered pair / triple of 9 call kinds (successful, failing, collecting, union reaching its last stage, union "
            "failing all stages, function, exclude policy) on shared types: the last outcome equals its outcome on freshly "
            "executed types.",
            "Trusted: canon() snapshots; freshly exec'd modules (with typing's caches reset) as the baseline of (c).",
            "DESIGN.md §3 C19"),
    "C18": ("bounded-exhaustive enumeration of (recursive declaration, max_depth, nested input) against a reference depth walk, "
            "plus exact work counts from a counting leaf converter against a polynomial bound",
            "9 ways of declaring recursion (Optional / plain / List / Tuple / Dict / Union / logical | / mutual recursion / "
            "List[Optional]) x max_depth None,1..4 x inputs of data-class depth 1..6 with the nested value at list index 0/1/2, "
            "mapping key 'k'/''/'0', either union branch, plus cyclic dicts and lists: accepted iff depth <= limit, excess and "
            "cycles rejected with ParseError. Cost: 6 declarations with a counting Leaf converter x depth 1..8 x width 1..3 x "
            "{valid, lenient-only, one invalid bottom leaf}: leaf conversions <= 4 n^2 + 8 for n input nodes.",
            "Trusted: the 20-line reference depth walk; the counting converter registered by the harness (deterministic, no "
            "timing). One recorded finding (3^depth retries of union stages on a failing leaf), identified by its growth factor.",
            "DESIGN.md §3 C18"),
}
CHECKS.update(CHECKS_EXTRA)

# what the four rounds of independently seeded changes added to each check (DESIGN.md section 8.3 has the reasons)
ADDED = {
    "C01": "Also: *args / **kwargs call forms, mixed lax/strict declarations, a data class with a no-input constrained field under addition=True, data classes spread "
           "over three levels of inheritance; every exploration runs after an unrelated @utype.apply declaration (history prefix).",
    "C02": "Also: constants of a subclass type, Enum classes as the enum constraint (incl. a Flag and members with unhashable values), "
           "triples of constraints for every origin in the thorough tier, constraints inherited from several rules, constraints added through "
           "Rule.annotate on top of a rule, a rule without an origin type (const / enum incl. None).",
    "C03": "Also: untyped rules with lax const / enum, lax bounds of another numeric type, unions whose earlier member accepts instances of a "
           "later one; drift of a union is sub-classified (strict-stage capture = recorded design finding, lenient-only capture = violation); containers of data-class instances under allow_subclasses=False.",
    "C04": "Also: addition=False option sets, hostile excess values, contains declarations, a discriminator shard, a cast_keyword_str shard "
           "(keys that cannot be cast). Non-termination = over the line budget AND an untraced confirmation run of >= 30 s does not complete.",
    "C05": "Also: data_first_search / ignore_alias_conflicts combined with addition policies, falsy extra values, both key orders, fields combining "
           "mode with a mode-string no_input / no_output, classes declared after the class under test (subclass, unrelated class), case_insensitive=False on a field, "
           "required in some modes only, data-first search with ignore_alias_conflicts.",
    "C06": "Also: the same additions as C05 (the universe is shared) and declarations where a subclass re-declares an aliased base field plainly or only turns case_insensitive on over an inherited mixed-case field.",
    "C07": "Also: instances built by __from__ / as nested fields / with runtime options, multi-key update and |= with mappings and other instances, "
           "a dependant property that can become hidden, absent keys must not leave stale attributes, collect_errors + addition option sets, and a "
           "second class model (inherited fields, mixed-case names, case_insensitive / immutable subclass options).",
    "C08": "Also: decoration with Options(addition=True) / Options(collect_errors=True), unannotated parameters, @utype.parse above @staticmethod, "
           "generator functions as static / class methods of a parsed class, falsy generator return values, sequences of complete uses of one "
           "decorated generator function; parameters that declare dependencies.",
    "C09": "Also: the combined type as the type of an assigned field (attribute / item / DataClass attribute) against the plain conversion; "
           "algebra on operands that were used as operands before.",
    "C10": "Also: the axes ignore_constraints=True and max_params=1, a Schema with a typed property computed from a field, "
           "data-first search with ignore_alias_conflicts, functions with positional-only parameters, fields with dependencies and with a second spelling.",
    "C11": "Also: element types failing with OverflowError / decimal.InvalidOperation, containers reached through Optional / Union / any_of, fields "
           "required in a mode with a default, typed properties with a getter on_error, runtime policies differing from the declared ones for "
           "extra keys; sequences up to length 7 in the thorough tier; the class-level policy given at run time or by a subclass.",
    "C12": "Also: lists / tuples of data-class instances and of non-dict mappings, memoryviews, Options(addition=None, **flags), the caller's "
           "no_explicit_cast for data-class targets; every atom wrapped in one- and two-element containers in the thorough tier; parametrised container targets; further "
           "spellings of a field next to unknown keys.",
    "C13": "Also: programs with properties (getter / setter of different types), fields combining mode with mode-string no_input / no_output, "
           "Final fields, class options no_default / defer_default / ignore_required. Recorded & / ^ / bool findings only cover their "
           "computed sub-class (last argument's schema holds, valid under >= 2 branches, the same number as int passes). Fields typed Any; enums declared below a member-less base and with mixed member types.",
    "C14": "Also: two-level container shapes (Set[Tuple], List[Set], Dict[str, Inner], FrozenSet ...), unorderable and name-crossing Enums, "
           "Optional[int] elements, Decimals with exponents far outside the float range; all value pairs in the thorough tier; UTC offsets with seconds / sub-seconds, frozensets of tuples, subnormal-range Decimals.",
    "C15": "Also: property names colliding after sanitising (both orders), keywords with falsy values, prefixItems with unconstrained members, "
           "every ordered pair of scalar schemas under each combinator in the thorough tier; allOf findings are sub-classified "
           "(last member wins = recorded design finding). Crosscut schemas: enum / const beside other keywords, an explicit type beside a "
           "combinator, property counts with undeclared keys, dependentRequired over undeclared names, equal members; oneOf findings are "
           "sub-classified by root cause (a value returned although two member types took the input is never covered). Every shard runs after a parser with its own type_map was used (history prefix); single-value and empty ranges.",
    "C16": "Also: raising detectors, classes + metaclass, a non-class target, re-registration of one function under other criteria, a detector "
           "that registers during the scan, a virtual subclass of an abstract class; a registry declared on top of another one (base=).",
    "C17": "Also: twin scenarios (a program with forward references executed piecewise with probes against its direct-reference twin): constrained "
           "references, partial first calls of functions, *args / **kwargs / return / generator references (module level, local, postponed "
           "annotations), two bases with the same pending name, generics inside logical types (also in a local class), shipped generics (types.Array['B']), subclasses, async generators, "
           "result-only / params-only functions, a declared __init__ assigning a reference-typed field, Final / ClassVar under postponed annotations.",
    "C18": "Also: one-element-list wrapped nesting, decorated / DataClass / declared-__init__ declarations, limits coming from an override=True "
           "outer class, collecting declarations, four strictness option sets and a self-containing-input family for the cost part, whose "
           "cut-off is the counting leaf itself (no timing); the limit beside ten other options of the same declaration; DAG inputs (one object at two depths).",
    "C19": "Also: cast_keyword_str with non-str keys, a positional mapping together with a keyword, force_default kinds, shared types with two "
           "dependent fields, re-parsing an immutable input after the result was mutated; default factories that build new objects holding any mutable "
           "member; one union type under different options within a history.",
    "C20": "Also: Type['X'] fields, two classes sharing one typing-cached reference, a warm registry cache racing an unrelated registration; "
           "nested code objects (lambdas, inner functions) of the instrumented functions are scheduling points; the cooperative lock honours "
           "blocking=False; a subclass sharing a constrained pending reference with its base; a well-filled resolution cache.",
}

NOT_YET = "check not built yet in this round (planned, see DESIGN.md §3)"


def main():
    checks = []
    for pid in ALL:
        if pid not in CHECKS:
            continue
        tech, text, note, ref = CHECKS[pid]
        if pid in ADDED:
            text = text + " " + ADDED[pid]
        checks.append(dict(
            property_id=pid,
            quick_cmd=f"./check {pid} --tier quick",
            thorough_cmd=f"./check {pid} --tier thorough",
            evidence_file=f"/verif/evidence/{pid}.json",
            replay_cmd_template=f"./check {pid} --replay {{path}}",
            engine="utmc",
            level_claimed=dict(category="model_checking", text=text, design_ref=ref),
            level_note=note,
            technique=tech,
        ))
    man = dict(
        version=1,
        setup_cmd="/venv/bin/pip install -q --no-index --find-links /opt/veriftools/wheels --target /verif/.deps "
                  "--upgrade jsonschema >/dev/null 2>&1; /venv/bin/python -c \"import sys; sys.path.append('/verif/.deps'); import jsonschema\"",
        hooks=dict(guard="UTYPE_VERIF",
                   enable="none needed: no hooks are compiled into utype; checks observe through the public API, "
                          "sys.settrace and registry snapshots (UTYPE_VERIF=1 is exported by ./check for uniformity)",
                   baseline_off_cmd="cd /repo && /venv/bin/python -m pytest -ra -q -p no:cacheprovider --timeout=900 "
                                    "--continue-on-collection-errors",
                   source_commits=[], add_only=True),
        engines=[dict(name="utmc", path="/verif/utmc",
                      serves_properties=sorted(CHECKS),
                      kind_free_text="hand-written explicit-state / bounded-exhaustive explorer for Python driving the "
                                     "real utype code (product-space E1, history BFS/DFS E2, thread-schedule E3)")],
        checks=checks,
        not_applicable=[dict(property_id=p, reason=NOT_YET) for p in ALL if p not in CHECKS],
        notes="All checks run the working tree in $UTYPE_SRC (default /repo) directly; there is no build step. "
              "known_findings.json lists recorded and fixed defects.",
    )
    with open(os.path.join(VERIF, "MANIFEST.json"), "w") as fh:
        json.dump(man, fh, indent=1)
    try:
        import sys
        sys.path.append(os.path.join(VERIF, ".deps"))
        import jsonschema
        jsonschema.validate(man, json.load(open("/root/.vp/MANIFEST.schema.json")))
        print("MANIFEST.json valid;", len(checks), "checks")
    except ImportError:
        print("MANIFEST.json written (not validated)")


if __name__ == "__main__":
    main()
