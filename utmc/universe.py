"""Value alphabet: expression strings evaluated in utmc.ns (fresh object for every call).

Atoms are chosen per converter branch of utype/utils/transform.py and per validator of
utype/parser/rule.py: for every isinstance / truthiness / format shortcut there is at least
one atom that takes it and one that does not.
"""
from . import ns

_NS = {k: getattr(ns, k) for k in ns.__all__}
_NS["__builtins__"] = __builtins__
_CODE = {}


def ev(expr: str):
    """Evaluate an expression of the vocabulary; a *fresh* object on every call."""
    c = _CODE.get(expr)
    if c is None:
        c = _CODE[expr] = compile(expr, "<utmc>", "eval")
    return eval(c, _NS)


NULLS = ["None"]
BOOLS = ["True", "False"]
INTS = ["0", "1", "-1", "2", "3", "7", "10", "12", "100", "255", "-128", "10**20", "-10**20", "10**400",
        "MyInt(5)", "2**63"]
FLOATS = ["0.0", "-0.0", "1.0", "3.5", "-3.5", "0.1", "2.5", "1e22", "5e-324", "1.7976931348623157e308",
          "float('inf')", "float('-inf')", "float('nan')", "3.0000000000000004"]
DECIMALS = ["Decimal('0')", "Decimal('1')", "Decimal('3.50')", "Decimal('1E+2')", "Decimal('-0.5')",
            "Decimal('0.001')", "Decimal('NaN')", "Decimal('Infinity')", "Decimal('-Infinity')",
            "Decimal('123.456')", "Decimal('1E-30')", "Decimal('sNaN')"]
COMPLEX = ["1+0j", "1+1j", "0j"]
STRS = ["''", "' '", "'0'", "'1'", "'-1'", "'true'", "'True'", "'NO'", "'off'", "'y'", "'null'", "'None'", "'nil'",
        "'abc'", "'a'", "'ab'", "'abcd'", "'3'", "' 3 '", "'3.0'", "'3.5'", "'1e3'", "'1_000'", "'0x10'",
        "'inf'", "'-Infinity'", "'nan'", "'NaN'", "'٠٣'", "'½'", "'red'", "'RED'", "'B'", "'ONE'", "'y'",
        "MyStr('7')", "'a-b'", "'x@y.io'", "'12345678-1234-5678-1234-567812345678'",
        "'12345678123456781234567812345678'", "'\\x00'", "'\U0001F600'", "'" + "9" * 40 + "'",
        "'1.5e400'", "'1e-400'"]
STRUCT_STRS = ["'[1,2]'", "'[1, \"a\"]'", "'(1,2)'", "'{1,2}'", "'{\"a\":1}'", "\"{'a':1}\"", "'[]'", "'{}'", "'()'",
               "'a,b'", "'1,2'", "'1;2'", "'a=1&b=2'", "'a=1;b=2'", "'a=1,b=2'", "'a=1'", "'[1,2'", "'{a}'",
               "'[[1],[2]]'", "'{\"a\":{\"b\":1}}'", "'[1,2]x'", "'(1)'", "'{\"a\":NaN}'", "'[' * 30 + ']' * 30",
               "'{\"a\":1,\"a\":2}'", "'=1'", "'a=1&a=2'"]
BYTES = ["b''", "b'3'", "b'abc'", "b'\\xff'", "b'\\xe4\\xbd'", "b'true'", "b'[1,2]'", "bytearray(b'1')",
         "memoryview(b'1')", "b'\\x12\\x34\\x56\\x78' * 4", "b'2020-01-02'", "b'{\"a\":1}'"]
DATE_STRS = ["'2020-01-02'", "'2 Jan 2020'", "'2 January 2020'", "'2020/01/02'", "'02/01/2020'", "'13/01/2020'",
             "'01/13/2020'", "'02-01-2020'", "'Thursday, 2 January 2020'", "'Thu, 2 Jan 2020'", "'20200102'",
             "'2020-1-2'", "'2020-02-30'", "'0000-01-01'", "'9999-12-31'", "'10000-01-01'"]
DATETIME_STRS = ["'2020-01-02 03:04:05'", "'2020-01-02 03:04:05.123456'", "'2020-01-02 03:04:05 123'",
                 "'2020-01-02 03:04:05 PM'", "'2020-01-02T03:04:05'", "'2020-01-02T03:04:05.5'",
                 "'2020-01-02T03:04:05Z'", "'2020-01-02T03:04:05.123Z'", "'Thu, 02 Jan 2020 03:04:05 GMT'",
                 "'Thu Jan 02 03:04:05 2020'", "'Jan 02 03:04:05 2020'", "'2020-01-02 03:04'",
                 "'2020-01-02T03:04:05+05:30'", "'2020-01-02T03:04:05-05:00'", "'2020-01-02 03:04:05 +0530'",
                 "'2020-01-02T03:04:05+0000'", "'2020-01-02T00:00:00'", "'2020-01-02 00:00:00'",
                 "'2020-01-02T25:00:00'", "'2020-01-02T03:04:05 UTC'", "'2020-01-02T03:04:05TZD'"]
TIME_STRS = ["'03:04:05'", "'03:04'", "'03:04:05.123'", "'03:04:05.123456'", "'25:00:00'", "'3:4:5'",
             "'03:04:05+05:30'", "'03:04:05 PM'"]
DURATION_STRS = ["'5'", "'1 day, 0:00:05'", "'1 0:00:05'", "'-1 day, 23:59:55'", "'0:00:05.5'", "'1:02:03'", "'02:03'",
                 "'P1DT2H3M4S'", "'-P1D'", "'PT0.5S'", "'P0DT00H00M00.000001S'", "'PT36H'", "'P1.5D'", "'P'",
                 "'+P1DT1S'", "'-0:00:05'", "'1:-2:3'", "'P1Y'", "'PT1,5S'"]
TIMESTAMPS = ["0", "1e9", "1e12", "2e10", "2e10+1", "-1e12", "1577934245", "1577934245.5", "1e18", "1e30",
              "Decimal('1577934245.123')", "-62135596800", "253402300800"]
DT_OBJS = ["date(2020,1,2)", "datetime(2020,1,2,3,4,5)", "datetime(2020,1,2,0,0,0)",
           "datetime(2020,1,2,3,4,5,678901)", "datetime(2020,1,2,3,4,5,tzinfo=timezone.utc)",
           "datetime(2020,1,2,3,4,5,tzinfo=TZ530)", "datetime(2020,1,2,3,4,5,tzinfo=TZM5)",
           "time(3,4,5)", "time(0,0)", "time(3,4,5,678000)", "time(3,4,5,tzinfo=timezone.utc)",
           "timedelta(0)", "timedelta(seconds=5)", "timedelta(days=-1, seconds=5)", "timedelta(microseconds=1)",
           "timedelta(days=400)", "date(1,1,1)", "date(9999,12,31)", "datetime(1,1,1)", "datetime(1970,1,1)"]
MISC_OBJS = ["UUID1", "Color.RED", "Num.TWO", "Tricky.A", "Plain.Y", "object()", "int", "Unreg", "Unreg(3)",
             "(lambda: 1)", "BadStr()", "BadLen()", "BadEq()", "range(2)", "range(0)", "gen(1,2)", "gen()", "iter([1])",
             "deque([1,2])", "{'a':1}.keys()", "{'a':1}.values()", "{'a':1}.items()", "elem(a='1')", "elem()",
             "io.BytesIO(b'1')", "io.BytesIO()", "Ellipsis", "NotImplemented", "type", "Fraction(1,2)", "Fraction(3,1)",
             "MyList([1])", "MyDict(a=1)", "OrderedDict(a=1)", "len", "Exception('e')"]
CONTAINERS = ["[]", "[1]", "[1,2]", "['1','2']", "[1,'a']", "['a']", "[None]", "[[1]]", "[[1,2],[3]]", "[1,[2]]",
              "()", "(1,)", "(1,2)", "('1','x')", "(1,2,3)", "((1,2),)", "((1,2),(3,4))", "(1,'a',2)",
              "set()", "{1}", "{1,2}", "{'a'}", "{'1','2'}", "{1,'a'}", "frozenset()", "frozenset({1})",
              "frozenset({'a',1})", "{(1,2)}",
              "{}", "{'a':1}", "{'a':'1'}", "{'a':'x'}", "{'a':1,'b':2}", "{1:2}", "{1:'a'}", "{'1':'2'}", "{(1,2):3}",
              "{'a':[1]}", "{'a':{'b':1}}", "{'a':None}", "{None:1}", "{'':1}", "{'A':1}", "{True:1}", "{1.5:1}",
              "[{'a':1}]", "[{'a':1},{'a':2}]", "[('a',1)]", "[('a',1),('b',2)]", "[['a',1]]", "(('a',1),)", "{('a',1)}",
              "[1,1]", "[1,True]", "[1,1.0]", "['a','a']", "[float('nan'),float('nan')]", "[float('inf')]",
              "[10**400]", "[BadEq(),BadEq()]", "[object()]"]
DEEP = ["nested_list(50)", "nested_dict(50)", "nested_list(400)", "nested_dict(400)", "self_list()", "self_dict()",
        "[self_dict()]", "{'a': self_list()}", "nested_list(3,'x')", "nested_dict(3,'a','x')"]

GROUPS = dict(null=NULLS, bool=BOOLS, int=INTS, float=FLOATS, decimal=DECIMALS, complex=COMPLEX, str=STRS,
              struct_str=STRUCT_STRS, bytes=BYTES, date_str=DATE_STRS, datetime_str=DATETIME_STRS,
              time_str=TIME_STRS, duration_str=DURATION_STRS, timestamp=TIMESTAMPS, dt_obj=DT_OBJS,
              misc=MISC_OBJS, container=CONTAINERS, deep=DEEP)


def all_atoms(include_deep=True):
    seen, out = set(), []
    for g, lst in GROUPS.items():
        if g == "deep" and not include_deep:
            continue
        for e in lst:
            if e not in seen:
                seen.add(e)
                out.append(e)
    return out


# a reduced alphabet (one or two atoms per converter branch) for nested positions
CORE = ["None", "True", "False", "0", "1", "-1", "2", "10**20", "0.0", "3.5", "1.0", "float('inf')", "float('nan')",
        "Decimal('1')", "Decimal('3.50')", "Decimal('NaN')", "''", "'1'", "'abc'", "'3.5'", "'true'", "'null'", "' 3 '",
        "b'3'", "b'\\xff'", "'[1,2]'", "'{\"a\":1}'", "'a,b'", "'2020-01-02'", "'2020-01-02T03:04:05Z'", "'03:04:05'",
        "'P1DT2H3M4S'", "1577934245", "date(2020,1,2)", "datetime(2020,1,2,3,4,5)", "time(3,4,5)", "timedelta(seconds=5)",
        "UUID1", "Color.RED", "Num.TWO", "object()", "Unreg(3)", "BadStr()", "gen(1,2)", "[]", "[1]", "[1,'a']", "['1','2']",
        "(1,2)", "{1,2}", "{'a'}", "{}", "{'a':1}", "{'a':'x'}", "{1:2}", "[('a',1)]", "[{'a':1}]", "self_list()",
        "self_dict()", "nested_list(50)"]

# per element-type representatives: accepted / convertible / rejected
ELEM_REPS = {
    "int": ["1", "2", "'3'", "True", "3.5", "'x'", "None", "[1]", "'3.5'", "float('inf')", "b'4'", "Decimal('5')"],
    "str": ["'a'", "'b'", "1", "None", "b'c'", "b'\\xff'", "BadStr()", "['a']", "3.5"],
    "posint": ["1", "2", "'3'", "0", "-1", "'x'", "True", "None"],
    "float": ["1.5", "2", "'3.5'", "'x'", "None", "float('nan')", "True"],
    "bool": ["True", "False", "0", "1", "'true'", "'x'", "2", "None"],
    "date": ["date(2020,1,2)", "'2020-01-02'", "datetime(2020,1,2,3,4,5)", "'x'", "0", "None"],
}
