"""Independent reference semantics of the documented constraints (docs/en/references/rule.md).

ref_constraint(name, bound, v) -> True (holds) | False (violated) | None (documentation does not decide:
a "don't care" that no oracle may turn into an expectation).
Nothing here calls into utype.
"""
import math
import re
from decimal import Decimal
from fractions import Fraction

TOLERANCE = ({int, float}, {int, Decimal}, {float, Decimal})


def _isnan(v):
    try:
        if isinstance(v, float):
            return math.isnan(v)
        if isinstance(v, Decimal):
            return v.is_nan()
    except Exception:
        pass
    return False


def _plain(v):
    """plain positional expansion of a number: (int_digits:str, frac_digits:str) or None if not finite"""
    if isinstance(v, bool):
        v = int(v)
    if isinstance(v, int):
        d = Decimal(v)
    elif isinstance(v, float):
        if math.isnan(v) or math.isinf(v):
            return None
        d = Decimal(str(v))
    elif isinstance(v, Decimal):
        if not v.is_finite():
            return None
        d = v
    else:
        return None
    s = format(d, "f").lstrip("+-")
    if "." in s:
        a, b = s.split(".")
    else:
        a, b = s, ""
    return a, b


def digits_of(v):
    p = _plain(v)
    if p is None:
        return None
    a, b = p
    a = a.lstrip("0")
    # "If the number is between 0 and 1, the 0 on the integer side does not count"
    return len(a) + len(b)


def decimals_of(v):
    p = _plain(v)
    if p is None:
        return None
    return len(p[1])


def _exact(v):
    if isinstance(v, bool):
        return Fraction(int(v))
    if isinstance(v, int):
        return Fraction(v)
    if isinstance(v, float):
        if math.isnan(v) or math.isinf(v):
            return None
        return Fraction(v)
    if isinstance(v, Decimal):
        if not v.is_finite():
            return None
        return Fraction(v)
    return None


def ref_constraint(name, bound, v):
    if name in ("gt", "ge", "lt", "le"):
        if _isnan(v):
            return False          # NaN is neither greater nor less than anything
        try:
            if name == "gt":
                return bool(v > bound)
            if name == "ge":
                return bool(v >= bound)
            if name == "lt":
                return bool(v < bound)
            return bool(v <= bound)
        except TypeError:
            return None
    if name in ("length", "min_length", "max_length"):
        n = len(v) if hasattr(v, "__len__") else len(str(v))
        if name == "length":
            return n == bound
        if name == "min_length":
            return n >= bound
        return n <= bound
    if name == "regex":
        return re.fullmatch(bound, str(v)) is not None
    if name == "const":
        if _isnan(v) or _isnan(bound):
            return False
        try:
            if not (v == bound):
                return False
        except Exception:
            return False          # a value whose comparison raises equals no constant
        if type(v) is type(bound):
            return True
        return {type(v), type(bound)} in TOLERANCE
    if name == "enum":
        import enum as _enum
        if isinstance(bound, _enum.EnumMeta):
            # an Enum class as the constraint: membership is "EnumClass(value) succeeds"
            try:
                bound(v)
                return True
            except Exception:
                return False

        def _eq(a, b):
            try:
                return bool(a == b)
            except Exception:
                return False
        return any(_eq(v, b) for b in bound)
    if name == "max_digits":
        d = digits_of(v)
        if d is None:
            return False          # NaN / infinities have no digit count: cannot satisfy a digit limit
        if d == 0:
            return True
        return d <= bound
    if name == "decimal_places":
        d = decimals_of(v)
        if d is None:
            return False
        return d <= bound
    if name == "multiple_of":
        a, b = _exact(v), _exact(bound)
        if a is None or b is None:
            return False
        if b == 0:
            return None
        if isinstance(v, float) or isinstance(bound, float):
            # float `%` is only exact for dyadic operands of moderate size; outside that the
            # documented sense ("must be a multiple") and float arithmetic may legitimately differ
            q = a / b
            if q.denominator != 1:
                # not a multiple in exact arithmetic; float % may round to 0 only for huge ratios
                if abs(q) > 2 ** 52:
                    return None
                return False
            if abs(q) > 2 ** 52:
                return None
            return True
        return (a / b).denominator == 1
    if name == "unique_items":
        if not bound:
            return True
        items = list(v)
        for i in range(len(items)):
            for j in range(i):
                try:
                    if items[i] == items[j]:
                        return False
                except Exception:
                    return None       # items whose comparison raises: uniqueness is not decidable (not judged)
        return True
    raise KeyError(name)
