"""Type grammar: explicit, versioned declaration alphabets (simplest first)."""
import itertools

PLAIN_LEAVES = ["NoneType", "bool", "int", "float", "Decimal", "complex", "str", "bytes", "bytearray", "list", "tuple",
                "set", "frozenset", "deque", "dict", "date", "datetime", "time", "timedelta", "UUID", "Color", "Num",
                "Tricky", "Plain", "MyInt", "MyStr", "MyList", "Sequence", "Mapping", "Iterable", "Unreg", "Any"]

# representative leaves for nested positions
REP_LEAVES = ["int", "str", "float", "bool", "NoneType", "date", "Color", "Decimal"]

# (origin, ((constraint, bound expr), ...))
STRICT_TABLE = [
    ("int", (("gt", "0"),)), ("int", (("ge", "0"),)), ("int", (("lt", "10"),)), ("int", (("le", "10"),)),
    ("int", (("ge", "1"), ("le", "7"))), ("int", (("gt", "0"), ("lt", "3"))),
    ("int", (("multiple_of", "3"),)), ("int", (("max_digits", "2"),)), ("int", (("length", "2"),)),
    ("int", (("max_length", "2"),)), ("int", (("const", "1"),)), ("int", (("const", "0"),)),
    ("int", (("enum", "[1, 2, 3]"),)), ("int", (("regex", "'[0-9]{2}'"),)), ("int", (("multiple_of", "2"), ("ge", "0"))),
    ("float", (("gt", "0"),)), ("float", (("le", "1.5"),)), ("float", (("ge", "0.0"), ("lt", "1.0"))),
    ("float", (("multiple_of", "0.5"),)), ("float", (("max_digits", "3"),)), ("float", (("decimal_places", "1"),)),
    ("float", (("const", "1"),)), ("float", (("const", "1.5"),)), ("float", (("enum", "[float('inf'), float('-inf')]"),)),
    ("float", (("multiple_of", "2"),)), ("float", (("max_digits", "4"), ("decimal_places", "2"))),
    ("Decimal", (("ge", "Decimal('0')"),)), ("Decimal", (("lt", "Decimal('10')"),)),
    ("Decimal", (("max_digits", "4"), ("decimal_places", "2"))), ("Decimal", (("decimal_places", "2"),)),
    ("Decimal", (("max_digits", "3"),)), ("Decimal", (("multiple_of", "2"),)), ("Decimal", (("const", "1"),)),
    ("Decimal", (("gt", "0"),)),
    ("str", (("min_length", "1"),)), ("str", (("max_length", "3"),)), ("str", (("length", "2"),)),
    ("str", (("regex", "'[0-9]+'"),)), ("str", (("regex", "'a|ab'"),)), ("str", (("const", "'a'"),)),
    ("str", (("enum", "['a', 'b']"),)), ("str", (("regex", "'[a-z]*'"), ("max_length", "2"))),
    ("str", (("min_length", "1"), ("max_length", "2"))),
    ("bytes", (("max_length", "2"),)), ("bytes", (("min_length", "1"),)),
    ("list", (("max_length", "2"),)), ("list", (("min_length", "1"),)), ("list", (("length", "2"),)),
    ("list", (("unique_items", "True"),)),
    ("tuple", (("max_length", "2"),)), ("tuple", (("unique_items", "True"),)),
    ("set", (("max_length", "2"),)), ("set", (("min_length", "1"),)),
    ("dict", (("max_length", "1"),)), ("dict", (("min_length", "1"),)),
    ("datetime", (("ge", "datetime(2020,1,1)"),)), ("date", (("lt", "date(2021,1,1)"),)),
    ("timedelta", (("ge", "timedelta(0)"),)),
    ("MyInt", (("gt", "0"),)), ("MyStr", (("max_length", "3"),)),
    (None, (("max_length", "3"),)), (None, (("min_length", "1"), ("max_length", "3"))), (None, (("const", "1"),)),
    (None, (("const", "None"),)), (None, (("enum", "[1, 'a', None]"),)), (None, (("const", "0"),)),
    (None, (("regex", "'[0-9]+'"),)), (None, (("length", "2"),)),
]

LAX_TABLE = [
    ("str", (("max_length", "Lax(3)"),)), ("str", (("length", "Lax(2)"),)), ("list", (("max_length", "Lax(2)"),)),
    ("list", (("length", "Lax(2)"),)), ("tuple", (("max_length", "Lax(2)"),)), ("bytes", (("max_length", "Lax(2)"),)),
    ("int", (("ge", "Lax(0)"),)), ("int", (("le", "Lax(10)"),)), ("int", (("ge", "Lax(0)"), ("le", "Lax(10)"))),
    ("float", (("ge", "Lax(0.0)"),)), ("float", (("le", "Lax(1.5)"),)),
    ("Decimal", (("ge", "Lax(Decimal('0'))"),)),
    ("float", (("decimal_places", "Lax(2)"),)), ("Decimal", (("decimal_places", "Lax(2)"),)),
    ("float", (("decimal_places", "Lax(0)"),)), ("Decimal", (("decimal_places", "Lax(0)"),)),
    ("float", (("max_digits", "Lax(3)"),)), ("Decimal", (("max_digits", "Lax(3)"),)), ("int", (("max_digits", "Lax(3)"),)),
    ("int", (("multiple_of", "Lax(3)"),)), ("float", (("multiple_of", "Lax(0.5)"),)), ("Decimal", (("multiple_of", "Lax(2)"),)),
    ("int", (("multiple_of", "Lax(10)"),)),
    ("int", (("const", "Lax(1)"),)), ("str", (("const", "Lax('a')"),)), ("int", (("enum", "Lax([1, 2, 3])"),)),
    # a lax bound of another numeric type than the origin
    ("int", (("le", "Lax(10.5)"),)), ("int", (("ge", "Lax(0.5)"),)), ("float", (("le", "Lax(10)"),)), ("Decimal", (("ge", "Lax(0)"),)),
    ("int", (("ge", "Lax(Decimal('0.5'))"),)), ("int", (("le", "Lax(Decimal('-0.5'))"),)),
    # an Enum class as the lax choice: the replacement is a member *value*, like every other path returns
    ("int", (("enum", "Lax(Num)"),)), (None, (("enum", "Lax(Plain)"),)), (None, (("enum", "Lax(Tricky)"),)),
    # untyped rules: the lax constant replaces every input, also one that is equal to it but of another type
    (None, (("const", "Lax(1)"),)), (None, (("const", "Lax(0)"),)), (None, (("const", "Lax(True)"),)),
    (None, (("const", "Lax('red')"),)), (None, (("enum", "Lax([1, 'a'])"),)),
    ("str", (("enum", "Lax(['a', 'b'])"),)),
    ("list", (("unique_items", "Lax(True)"),)), ("tuple", (("unique_items", "Lax(True)"),)),
    ("int", (("max_length", "Lax(2)"),)), ("float", (("max_digits", "Lax(3)"), ("decimal_places", "Lax(1)"))),
]

# lax and strict constraints mixed in one declaration: validators run in the documented order
# (docs/en/references/rule.md), so the strict one must hold on the value the lax one produced
MIXED_TABLE = [
    ("int", (("le", "Lax(10)"), ("multiple_of", "3"))), ("int", (("ge", "Lax(1)"), ("multiple_of", "2"))),
    ("int", (("ge", "0"), ("multiple_of", "Lax(3)"))), ("int", (("le", "Lax(10)"), ("max_digits", "1"))),
    ("list", (("max_length", "Lax(2)"), ("unique_items", "True"))), ("list", (("min_length", "2"), ("max_length", "Lax(2)"))),
    ("str", (("max_length", "Lax(3)"), ("regex", "'[a-z]+b'"))), ("str", (("min_length", "2"), ("max_length", "Lax(3)"))),
    ("Decimal", (("le", "Lax(Decimal('10'))"), ("decimal_places", "1"))),
    ("Decimal", (("max_digits", "3"), ("decimal_places", "Lax(1)"))),
    ("float", (("ge", "Lax(0.0)"), ("lt", "1.0"))),
    ("tuple", (("max_length", "Lax(2)"), ("unique_items", "True"))),
]


def mixed_specs(routes=("cls",)):
    return constrained_specs(routes, MIXED_TABLE)


CONTAINS_TABLE = [
    ("list", (("contains", "int"),)), ("list", (("contains", "int"), ("min_contains", "1"))),
    ("list", (("contains", "PositiveInt"), ("max_contains", "1"))), ("tuple", (("contains", "str"),)),
]


def contains_specs():
    return constrained_specs(("cls",), CONTAINS_TABLE)


def _n(expr, origin, *cons):
    return ("n", expr, ("r", origin, tuple(cons), "cls"))


INT_ = _n("Int", "int")
FLOAT_ = _n("Float", "float")
STR_ = _n("Str", "str")
POSINT_ = _n("PositiveInt", "int", ("gt", "0"))
_INF = ("n", "types.InfinityFloat", ("r", "float", (("enum", "[float('inf'), float('-inf')]"),), "cls"))
SHIPPED = [
    INT_, FLOAT_, STR_, _n("Bool", "bool"), _n("Null", "NoneType"), POSINT_, _n("NaturalInt", "int", ("ge", "0")),
    _n("PositiveFloat", "float", ("gt", "0")), _n("NegativeFloat", "float", ("lt", "0")),
    _n("NegativeInt", "int", ("lt", "0")), _n("SlugStr", "str", ("regex", "r'[a-z0-9]+(?:-[a-z0-9]+)*'")),
    _n("Month", "int", ("ge", "1"), ("le", "12")), _n("Year", "int", ("ge", "1"), ("le", "9999")),
    _n("Day", "int", ("ge", "1"), ("le", "31")), _n("types.Hour", "int", ("ge", "0"), ("le", "23")),
    _n("Zero", None, ("const", "0")), _INF,
    _n("types.Datetime", "datetime"), _n("types.Date", "date"), _n("types.Timedelta", "timedelta"),
    _n("types.Timestamp", "float", ("ge", "0")),
    ("n", "Array", ("t", "list")), ("n", "Object", ("t", "dict")),
    ("n", "Array[int]", ("g", "List", (("t", "int"),))), ("n", "Object[str, int]", ("g", "Dict", (("t", "str"), ("t", "int")))),
    ("n", "types.NormalFloat", ("t", "float")), ("n", "types.Divisor", ("t", "float")),
    ("n", "types.AbnormalFloat", ("t", "float")),
]

LITERALS = [("'a'",), ("'a'", "'b'"), ("1",), ("1", "True", "'true'"), ("None",), ("1", "2", "3"), ("b'x'",), ("Color.RED",)]


def leaf_specs():
    return [("t", n) for n in PLAIN_LEAVES]


def constrained_specs(routes=("cls", "ann"), table=None):
    out = []
    for origin, cons in (table if table is not None else STRICT_TABLE):
        for route in routes:
            if origin is None and route == "ann":
                continue
            out.append(("r", origin, cons, route))
    return out


def lax_specs(routes=("cls",)):
    return constrained_specs(routes, LAX_TABLE)


def literal_specs():
    return [("lit", v) for v in LITERALS]


REP_ELEMS = [("t", "int"), ("t", "str"), ("t", "float"), ("t", "bool"), ("t", "NoneType"), ("t", "date"),
             ("t", "Color"), ("t", "Decimal"), ("r", "int", (("gt", "0"),), "cls"),
             ("r", "str", (("max_length", "3"),), "cls"), ("t", "Any"), ("t", "datetime"), ("t", "Num"),
             ("t", "bytes"), ("t", "Unreg"), ("lit", ("'a'", "'b'"))]
REP_ELEMS_Q = REP_ELEMS[:10]
KEY_ELEMS = [("t", "str"), ("t", "int"), ("r", "str", (("max_length", "3"),), "cls"), ("t", "Color"), ("t", "date"),
             ("t", "bool"), ("g", "Tuple", (("t", "int"), ("t", "int")))]


def generic_specs(elems=None, keys=None, depth=1):
    elems = elems or REP_ELEMS
    keys = keys or KEY_ELEMS
    out = []
    for e in elems:
        for ctor in ("List", "Set", "FrozenSet", "TupleVar", "Optional", "Sequence", "Deque"):
            out.append(("g", ctor, (e,)))
    for a, b in itertools.product(elems[:6], repeat=2):
        out.append(("g", "Tuple", (a, b)))
        if a < b:
            out.append(("g", "Union", (a, b)))
            out.append(("g", "Union", (b, a)))
    # unions whose earlier member strictly accepts instances of a later one (exact-type pass-through matters)
    for a, b in (("float", "Decimal"), ("datetime", "date"), ("bytes", "str"), ("Decimal", "float"), ("date", "datetime"),
                 ("str", "bytes"), ("int", "Decimal"), ("float", "int")):
        out.append(("g", "Union", (("t", a), ("t", b))))
    out.append(("g", "Tuple", (("t", "int"),)))
    out.append(("g", "Tuple", (("t", "int"), ("t", "str"), ("t", "float"))))
    for k in keys:
        for v in elems[:8]:
            out.append(("g", "Dict", (k, v)))
    out.append(("g", "Mapping", (("t", "str"), ("t", "int"))))
    if depth >= 2:
        inner = [("g", "List", (("t", "int"),)), ("g", "Dict", (("t", "str"), ("t", "int"))),
                 ("g", "Optional", (("t", "int"),)), ("g", "Tuple", (("t", "int"), ("t", "str"))),
                 ("g", "Set", (("t", "int"),)), ("g", "Union", (("t", "int"), ("t", "str"))),
                 ("g", "TupleVar", (("t", "int"),))]
        for e in inner:
            for ctor in ("List", "Set", "TupleVar", "Optional"):
                if ctor == "Set" and e[1] in ("List", "Dict", "Set"):
                    continue
                out.append(("g", ctor, (e,)))
            out.append(("g", "Dict", (("t", "str"), e)))
            out.append(("g", "Tuple", (e, ("t", "int"))))
            out.append(("g", "Union", (e, ("t", "NoneType"))))
    # generic + constraints
    for cons in [(("max_length", "2"),), (("min_length", "1"),), (("unique_items", "True"),), (("length", "2"),)]:
        out.append(("gc", "List", (("t", "int"),), cons))
        out.append(("gc", "TupleVar", (("t", "int"),), cons))
    out.append(("gc", "Dict", (("t", "str"), ("t", "int")), (("max_length", "1"),)))
    out.append(("gc", "Set", (("t", "int"),), (("max_length", "2"),)))
    return out


LOGIC_LEAVES = [INT_, ("t", "int"), FLOAT_, STR_, ("t", "str"), ("t", "bool"), ("t", "NoneType"),
                POSINT_, ("r", "str", (("regex", "'\\\\d+\\\\.\\\\d+'"),), "cls"), ("lit", ("'a'", "'b'")),
                ("g", "List", (("t", "int"),)), ("g", "Tuple", (("t", "int"), ("t", "str"))), ("t", "date"),
                ("t", "float"), ("t", "Any")]


def logical_specs(leaves=None, arities=(2,), ops="|^&", with_not=True):
    leaves = leaves or LOGIC_LEAVES
    out = []
    for op in ops:
        for n in arities:
            for args in itertools.permutations(leaves, n):
                out.append(("op", op, tuple(args)))
    if with_not:
        for a in leaves:
            out.append(("op", "~", (a,)))
    return out


def dataclass_specs(fields=None):
    fields = fields or [("t", "int"), ("t", "str"), ("r", "int", (("gt", "0"),), "cls"),
                        ("g", "List", (("t", "int"),)), ("g", "Optional", (("t", "int"),)),
                        ("g", "Dict", (("t", "str"), ("t", "int"))), ("t", "date"), ("t", "Color"),
                        ("g", "Tuple", (("t", "int"), ("t", "str"))), ("g", "Union", (("t", "int"), ("t", "str"))),
                        ("t", "float"), ("t", "bool"), ("t", "Decimal"), ("lit", ("'a'", "'b'"))]
    out = []
    for base in ("Schema", "DataClass"):
        for f in fields:
            out.append(("dc", base, (("a", f, None),), None))
        for f in fields[:6]:
            out.append(("dc", base, (("a", f, None), ("b", ("t", "str"), "'dflt'")), None))
        # a field that takes no input, in a class that keeps unknown keys: what is given for it is neither stored raw
        # under its name nor kept as an extra key
        out.append(("dc", base, (("a", ("t", "int"), None), ("v", ("r", "int", (("ge", "0"),), "cls"), "Field(no_input=True, default=0)")),
                    "Options(addition=True)"))
        # a field annotated Any whose Field declares constraints: any type, but the constraints hold
        for cons in ((("const", "5"),), (("enum", "[1, 2]"),), (("max_length", "2"),), (("ge", "1"),)):
            out.append(("dc", base, (("a", ("r", None, cons, "anyfield"), None),), None))
        # the same declaration spread over three levels of inheritance (types from the grandparent, defaults from the leaf)
        out.append(("dc", base + "3", (("a", ("r", "int", (("gt", "0"),), "cls"), "3"),), None))
        out.append(("dc", base + "3", (("a", ("g", "List", (("t", "int"),)), "[1, 2]"),), None))
        out.append(("dc", base + "3", (("a", ("t", "int"), None), ("b", ("t", "str"), "'dflt'")), None))
    return out
