"""utmc core: shard runner, violation bookkeeping, known findings, evidence writer.

Every property module (utmc.props.cNN) exposes

    ID            property id
    LEVEL         evidence level ("model_checking")
    RULE          text: how cases are enumerated / what is non-trivial
    ASSUMPTIONS   list of strings
    shards(tier)  -> list of picklable shard descriptors (deterministic order)
    run_shard(shard, tier) -> Acc   (executed in a worker process)

The runner enumerates *all* shards (VERIF_SEED only rotates their order and
selects which samples are written out), merges the accumulators, matches the
violations against /verif/known_findings.json and writes
/verif/evidence/<id>.json.
"""
import collections
import fnmatch
import hashlib
import json
import multiprocessing
import os
import signal
import sys
import time
import traceback
import warnings

VERIF = os.path.dirname(os.path.dirname(os.path.abspath(__file__)))
UTYPE_SRC = os.environ.get("UTYPE_SRC", "/repo")


def bootstrap():
    """Make `import utype` resolve to $UTYPE_SRC and silence library warnings."""
    if sys.path[0] != UTYPE_SRC:
        sys.path.insert(0, UTYPE_SRC)
    deps = os.path.join(VERIF, ".deps")
    if deps not in sys.path:
        sys.path.append(deps)
    warnings.simplefilter("ignore")
    import utype  # noqa
    src = os.path.realpath(os.path.dirname(os.path.dirname(utype.__file__)))
    if src != os.path.realpath(UTYPE_SRC):
        raise SystemExit(f"harness error: utype imported from {src}, expected {UTYPE_SRC}")
    return utype


def h64(s) -> int:
    if not isinstance(s, (bytes, bytearray)):
        s = repr(s).encode("utf-8", "backslashreplace")
    return int.from_bytes(hashlib.blake2b(s, digest_size=8).digest(), "big")


class Violation:
    __slots__ = ("fingerprint", "summary", "script", "detail")

    def __init__(self, fingerprint: str, summary: str, script: str, detail=None):
        self.fingerprint = fingerprint
        self.summary = summary
        self.script = script
        self.detail = detail or {}

    def to_json(self):
        return dict(fingerprint=self.fingerprint, summary=self.summary,
                    script=self.script, detail=self.detail)


class Acc:
    """Accumulator returned by a shard and merged by the runner."""

    MAX_VIOL_PER_FP = 3
    MAX_SAMPLES = 12

    def __init__(self):
        self.states = 0            # distinct configurations / states visited
        self.transitions = 0       # calls into the library
        self.evaluations = 0       # oracle evaluations
        self.nontrivial = set()    # 64-bit hashes of distinct non-trivial cases
        self.outcomes = collections.Counter()
        self.samples = []
        self.violations = {}       # fingerprint -> [Violation, ...]
        self.viol_count = collections.Counter()
        self.extra = collections.Counter()   # additive numeric facts
        self.caps = []             # textual caps hit
        self.notes = []

    def nontrivial_add(self, key):
        self.nontrivial.add(h64(key))

    def sample(self, s):
        if len(self.samples) < self.MAX_SAMPLES:
            self.samples.append(s)

    def violation(self, fingerprint, summary, script, detail=None):
        self.viol_count[fingerprint] += 1
        lst = self.violations.setdefault(fingerprint, [])
        if len(lst) < self.MAX_VIOL_PER_FP:
            lst.append(Violation(fingerprint, summary, script, detail))

    def merge(self, other: "Acc"):
        self.states += other.states
        self.transitions += other.transitions
        self.evaluations += other.evaluations
        self.nontrivial |= other.nontrivial
        self.outcomes.update(other.outcomes)
        self.extra.update(other.extra)
        self.viol_count.update(other.viol_count)
        for s in other.samples:
            self.sample(s)
        for fp, lst in other.violations.items():
            cur = self.violations.setdefault(fp, [])
            for v in lst:
                if len(cur) < self.MAX_VIOL_PER_FP:
                    cur.append(v)
        for c in other.caps:
            if c not in self.caps:
                self.caps.append(c)
        for n in other.notes:
            if n not in self.notes and len(self.notes) < 20:
                self.notes.append(n)


# ----------------------------------------------------------------------------------------------
# deterministic step budget / watchdog (C04, and protects every other check against hangs)

class StepBudgetExceeded(BaseException):
    pass


class WallTimeout(BaseException):
    pass


def _alarm(signum, frame):
    raise WallTimeout()


NONTERM_CONFIRMED = [0]   # confirmed non-terminating calls in this process
SLOW_CONFIRMED = [0]      # calls that exceeded the line budget under load but completed in the confirmation run


def call_guarded(fn, wall_s=2.0, step_budget=3_000_000):
    """Run fn(); returns ('ok', value) | ('exc', exception) | ('nonterm', steps).

    Guard against load-dependent verdicts: the counted re-run only happens when the first run exceeded the wall clock,
    which on a busy machine also happens to legitimate, merely slow calls.  A call is therefore reported as
    non-terminating only if it exceeds the line budget AND a third, untraced run does not complete within a long wall
    clock (>= 30 s) either."""
    r = _call_guarded(fn, wall_s, step_budget)
    if r[0] != "nonterm":
        return r
    if NONTERM_CONFIRMED[0] >= 3:
        return r        # non-termination is established in this process: later cases are judged by the line budget alone
    old = signal.signal(signal.SIGALRM, _alarm)
    signal.setitimer(signal.ITIMER_REAL, max(30.0, wall_s * 15))
    try:
        try:
            v = fn()
            SLOW_CONFIRMED[0] += 1
            return ("ok", v)
        except WallTimeout:
            NONTERM_CONFIRMED[0] += 1
            return r
        except Exception as e:
            SLOW_CONFIRMED[0] += 1
            return ("exc", e)
        finally:
            signal.setitimer(signal.ITIMER_REAL, 0)
    finally:
        signal.signal(signal.SIGALRM, old)


def _call_guarded(fn, wall_s=2.0, step_budget=3_000_000):
    """one guarded run: wall-clock alarm, then a deterministic re-run under a line counter

    A wall-clock alarm only *triggers a re-run* under a deterministic line counter;
    only exceeding the line budget classifies the call as non-terminating.
    `fn` must therefore be re-runnable (it rebuilds its inputs)."""
    old = signal.signal(signal.SIGALRM, _alarm)
    signal.setitimer(signal.ITIMER_REAL, wall_s)
    try:
        try:
            return ("ok", fn())
        except WallTimeout:
            pass
        except RecursionError as e:
            return ("exc", e)
        except Exception as e:
            return ("exc", e)
        finally:
            signal.setitimer(signal.ITIMER_REAL, 0)
    finally:
        signal.signal(signal.SIGALRM, old)
    # deterministic re-run
    count = [0]

    def tracer(frame, event, arg):
        if event == "line":
            count[0] += 1
            if count[0] > step_budget:
                raise StepBudgetExceeded()
        return tracer

    # backstop: when the traced code exhausts the recursion limit, calling the trace function itself raises
    # RecursionError, which makes CPython drop the tracer silently; a generous alarm ends such a run
    old = signal.signal(signal.SIGALRM, _alarm)
    signal.setitimer(signal.ITIMER_REAL, max(20.0, wall_s * 10))
    sys.settrace(tracer)
    try:
        try:
            v = fn()
            return ("ok", v)
        except StepBudgetExceeded:
            return ("nonterm", count[0])
        except WallTimeout:
            return ("nonterm", -count[0])      # negative: ended by the wall-clock backstop after the tracer was dropped
        except Exception as e:
            return ("exc", e)
    finally:
        sys.settrace(None)
        signal.setitimer(signal.ITIMER_REAL, 0)
        signal.signal(signal.SIGALRM, old)


# ----------------------------------------------------------------------------------------------
# known findings

def load_known(prop_id):
    path = os.path.join(VERIF, "known_findings.json")
    if not os.path.exists(path):
        return []
    data = json.load(open(path))
    out = []
    for f in data.get("findings", []):
        if f.get("property") == prop_id and f.get("status", "open") == "open":
            out.append(f)
    return out


def match_known(fp, known):
    for f in known:
        for pat in f.get("fingerprints", []):
            if fnmatch.fnmatchcase(fp, pat):
                return f
    return None


# ----------------------------------------------------------------------------------------------
# pool

_MOD = None
_TIER = None


def _init_worker(modname, tier):
    global _MOD, _TIER
    bootstrap()
    import importlib
    _MOD = importlib.import_module(modname)
    _TIER = tier
    if hasattr(_MOD, "init_worker"):
        _MOD.init_worker(tier)


def _run_one(shard):
    try:
        SLOW_CONFIRMED[0] = 0
        acc = _MOD.run_shard(shard, _TIER)
        if SLOW_CONFIRMED[0]:
            acc.extra["slow_calls_confirmed_terminating (over the line budget on a busy machine, completed untraced)"] += SLOW_CONFIRMED[0]
        return ("ok", acc)
    except BaseException:
        return ("err", f"shard {shard!r}:\n{traceback.format_exc()}")


def _exit_text(code):
    if code is not None and code < 0:
        try:
            return f"killed by {signal.Signals(-code).name}"
        except ValueError:
            return f"killed by signal {-code}"
    return f"exit code {code}"


def _limit_memory():
    """address-space headroom per worker (default 3 GB above what the process has at start): a run-away conversion ends
    in a MemoryError inside the library call -- which the property check then judges like any other escape -- instead of
    the kernel's OOM killer picking processes of the whole run"""
    try:
        import resource
        gb = float(os.environ.get("UTMC_WORKER_MEM_GB", "3"))
        if gb <= 0:
            return
        with open("/proc/self/statm") as fh:
            now = int(fh.read().split()[0]) * os.sysconf("SC_PAGE_SIZE")
        lim = now + int(gb * (1 << 30))
        soft, hard = resource.getrlimit(resource.RLIMIT_AS)
        if hard != resource.RLIM_INFINITY:
            lim = min(lim, hard)
        resource.setrlimit(resource.RLIMIT_AS, (lim, hard))
    except Exception:       # noqa
        pass


def _worker_loop(conn, modname, tier):
    _limit_memory()
    _init_worker(modname, tier)
    while True:
        try:
            sh = conn.recv()
        except EOFError:
            break
        if sh is None:
            break
        conn.send(_run_one(sh))
    conn.close()
    os._exit(0)


def _pool_map(modname, tier, shards, workers, fresh=False):
    """long-lived forked workers, one shard at a time each; unlike multiprocessing.Pool a worker that dies (stack overflow
    in the interpreter, a fatal signal) is noticed: its shard is yielded as ("died", (shard, exitcode)) and a fresh worker
    takes its place, so a run never waits for a result that cannot come.  fresh=True gives every shard a newly forked
    worker (the state of the parent), so that what a shard explores does not depend on which shards its worker ran before."""
    from multiprocessing.connection import wait
    ctx = multiprocessing.get_context("fork")
    todo = list(shards)
    live = {}                   # parent connection -> [process, shard or None]

    def spawn():
        parent, child = ctx.Pipe()
        p = ctx.Process(target=_worker_loop, args=(child, modname, tier), daemon=True)
        p.start()
        child.close()
        live[parent] = [p, None]
        return parent

    def feed(conn):
        if todo:
            sh = todo.pop(0)
            live[conn][1] = sh
            conn.send(sh)
        else:
            try:
                conn.send(None)
            except OSError:
                pass
            live.pop(conn)[0].join(5)
            conn.close()

    try:
        for _ in range(min(workers, len(todo))):
            feed(spawn())
        while live:
            for conn in wait(list(live)):
                p, sh = live[conn]
                try:
                    res = conn.recv()
                except (EOFError, OSError):
                    p.join(5)
                    live.pop(conn)
                    conn.close()
                    if sh is not None:
                        yield ("died", (sh, p.exitcode))
                    if todo:
                        feed(spawn())
                    continue
                live[conn][1] = None
                yield res
                if fresh and todo:
                    try:
                        conn.send(None)
                    except OSError:
                        pass
                    live.pop(conn)[0].join(5)
                    conn.close()
                    feed(spawn())
                else:
                    feed(conn)
    finally:
        for conn, (p, _) in list(live.items()):
            if p.is_alive():
                p.terminate()


def run_property(modname, tier, seed, workers=None, only_shards=None):
    t0 = time.time()
    bootstrap()
    import importlib
    mod = importlib.import_module(modname)
    pid = mod.ID
    shards = list(mod.shards(tier))
    n_shards = len(shards)
    if only_shards is not None:
        shards = [shards[i] for i in only_shards]
    if shards:
        k = seed % len(shards)
        shards = shards[k:] + shards[:k]
    workers = workers or int(os.environ.get("UTMC_WORKERS", "0")) or min(16, os.cpu_count() or 1)
    workers = max(1, min(workers, len(shards) or 1))
    total = Acc()
    errors = []
    if getattr(mod, "SERIAL", False) or workers == 1:
        _init_worker(modname, tier)
        for sh in shards:
            st, r = _run_one(sh)
            if st == "ok":
                total.merge(r)
            else:
                errors.append(r)
    else:
        done = 0
        for st, r in _pool_map(modname, tier, shards, workers, fresh=getattr(mod, "FRESH_WORKER_PER_SHARD", False)):
            done += 1
            if os.environ.get("UTMC_PROGRESS"):
                sys.stderr.write(f"[{time.time() - t0:7.1f}s] {done}/{len(shards)} shards\n")
            if st == "ok":
                total.merge(r)
            elif st == "died":
                # the interpreter itself went down while the library ran this shard's cases: no verdict was produced for
                # them, which no property allows (every one of them states an outcome for every input)
                sh, code = r
                idx = list(mod.shards(tier)).index(sh)
                total.violation(f"{pid}|interpreter-died|shard={sh!r}",
                                f"the worker process exploring shard #{idx} {sh!r} died ({_exit_text(code)}) instead of "
                                f"returning results", f"# re-run the shard alone:  ./check {pid} --tier {tier} --shard {idx}\n")
            else:
                errors.append(r)
    if errors:
        sys.stderr.write("HARNESS ERROR (not a property verdict):\n" + "\n".join(errors[:5]) + "\n")
        sys.exit(2)
    if hasattr(mod, "finalize"):
        mod.finalize(total, tier)

    # ---- violations vs. known findings
    known = load_known(pid)
    new, matched = [], {}
    for fp in sorted(total.violations):
        f = match_known(fp, known)
        if f is None:
            new.append(fp)
        else:
            matched.setdefault(f["id"], (f, []))[1].append(fp)
    if os.environ.get("UTMC_DUMP_KNOWN"):
        with open(os.environ["UTMC_DUMP_KNOWN"], "w") as fh:
            json.dump({fid: sorted(fps) for fid, (f, fps) in matched.items()}, fh, indent=1)
    rdir = os.path.join(os.environ.get("UTMC_REPLAY_DIR") or os.path.join(VERIF, "replays"), pid)
    os.makedirs(rdir, exist_ok=True)
    lines = []
    for fid, (f, fps) in sorted(matched.items()):
        n = sum(total.viol_count[fp] for fp in fps)
        lines.append(f"KNOWN-FINDING: property={pid} {f['id']}: {f['what']} "
                     f"[{n} explored cases, {len(fps)} fingerprints]")
    for fp in new:
        v = total.violations[fp][0]
        name = "%016x" % h64(fp)
        jpath = os.path.join(rdir, name + ".json")
        with open(jpath, "w") as fh:
            json.dump(dict(property=pid, tier=tier, seed=seed, count=total.viol_count[fp],
                           **v.to_json()), fh, indent=1, default=repr)
        with open(os.path.join(rdir, name + "_test.py"), "w") as fh:
            fh.write(v.script)
        lines.append(f"VIOLATION property={pid} replay={jpath}")
        lines.append(f"  # {v.summary}  [fingerprint {fp}; {total.viol_count[fp]} cases]")
    # ---- evidence
    wall = time.time() - t0
    samples = total.samples
    if samples:
        k = seed % len(samples)
        samples = (samples[k:] + samples[:k])[:8]
    cov = dict(
        states=total.states,
        transitions=total.transitions,
        traces_validated_against_impl=total.transitions,
        evaluations=total.evaluations,
        distinct_nontrivial=len(total.nontrivial),
        rule=mod.RULE,
        samples=samples,
        exhaustive=not total.caps,
        caps_hit=total.caps,
        shards=n_shards,
        shards_run=len(shards),
        workers=workers,
        outcome_classes=dict(total.outcomes.most_common(40)),
        distinct_outcome_classes=len(total.outcomes),
        bounds=mod.bounds(tier) if hasattr(mod, "bounds") else {},
        facts={k: v for k, v in sorted(total.extra.items())},
        known_findings_matched={fid: sum(total.viol_count[fp] for fp in fps)
                                for fid, (f, fps) in matched.items()},
        notes=total.notes,
        explanation="every explored trace is an execution of the real utype code from "
                    f"{UTYPE_SRC}; the model/oracle is compared on each step, so traces_validated_against_impl"
                    " equals the number of library transitions executed",
    )
    ev = dict(property_id=pid, tier=tier, seed=seed, level=mod.LEVEL, coverage=cov,
              assumptions=list(mod.ASSUMPTIONS), wall_s=round(wall, 3),
              violations=len(new))
    validate_evidence(ev)
    evdir = os.environ.get("UTMC_EVIDENCE_DIR") or os.path.join(VERIF, "evidence")
    os.makedirs(evdir, exist_ok=True)
    with open(os.path.join(evdir, pid + ".json"), "w") as fh:
        json.dump(ev, fh, indent=1, default=repr)
    for ln in lines:
        print(ln)
    print(f"{pid} {tier} seed={seed}: states={total.states} transitions={total.transitions} "
          f"evaluations={total.evaluations} nontrivial={len(total.nontrivial)} "
          f"outcome_classes={len(total.outcomes)} new_violations={len(new)} "
          f"known={len(matched)} wall={wall:.1f}s" + (f" caps={total.caps}" if total.caps else ""))
    return 1 if new else 0


def validate_evidence(ev):
    try:
        import jsonschema
    except ImportError:
        sys.stderr.write("warning: jsonschema not available, evidence not validated\n")
        return
    schema_path = "/root/.vp/EVIDENCE.schema.json"
    if not os.path.exists(schema_path):
        schema_path = os.path.join(VERIF, "utmc", "EVIDENCE.schema.json")
    schema = json.load(open(schema_path))
    # round-trip through json so that what is validated is what is written
    doc = json.loads(json.dumps(ev, default=repr))
    jsonschema.validate(doc, schema)
    if ev["coverage"]["states"] < 1 or ev["coverage"]["transitions"] < 1:
        raise SystemExit("harness error: empty exploration")
