"""canon(v): total, type-tagged, NaN-reflexive, set-order-insensitive structural form."""
import datetime as _dt
import decimal
import enum
import math
import uuid
from collections import deque


def canon(v, _depth=0, _seen=None):
    if _depth > 60:
        return ("deep",)
    t = type(v)
    if v is None:
        return ("None",)
    if t is bool:
        return ("bool", v)
    if isinstance(v, enum.Enum):
        return ("enum", t.__name__, v.name)
    if isinstance(v, bool):
        return ("bool", bool(v))
    if isinstance(v, int):
        return (_tn(t, int), int(v))
    if isinstance(v, float):
        if math.isnan(v):
            return (_tn(t, float), "nan")
        if v == 0:
            return (_tn(t, float), "0.0")
        return (_tn(t, float), float.__repr__(v))
    if isinstance(v, complex):
        # the sign of a zero part is not significant (like -0.0 for floats)
        return ("complex", canon(v.real)[1], canon(v.imag)[1])
    if isinstance(v, decimal.Decimal):
        if v.is_nan():
            return ("Decimal", "NaN")
        if not v.is_finite():
            return ("Decimal", str(v))
        if v == 0:
            return ("Decimal", "0")
        return ("Decimal", format(v.normalize(), "f"))
    if isinstance(v, str):
        return (_tn(t, str), str(v))
    if isinstance(v, (bytes, bytearray)):
        return (t.__name__, bytes(v))
    if isinstance(v, memoryview):
        return ("memoryview", bytes(v))
    if isinstance(v, _dt.datetime):
        return ("datetime", v.isoformat(), None if v.tzinfo is None else str(v.utcoffset()))
    if isinstance(v, _dt.date):
        return ("date", v.isoformat())
    if isinstance(v, _dt.time):
        return ("time", v.isoformat())
    if isinstance(v, _dt.timedelta):
        return ("timedelta", v.days, v.seconds, v.microseconds)
    if isinstance(v, uuid.UUID):
        return ("UUID", str(v))
    if _seen is None:
        _seen = set()
    if id(v) in _seen:
        return ("cycle", t.__name__)
    if isinstance(v, (list, tuple, deque)):
        _seen.add(id(v))
        try:
            return (t.__name__, tuple(canon(x, _depth + 1, _seen) for x in v))
        finally:
            _seen.discard(id(v))
    if isinstance(v, (set, frozenset)):
        return (t.__name__, tuple(sorted((canon(x, _depth + 1, _seen) for x in v), key=repr)))
    if isinstance(v, dict):
        _seen.add(id(v))
        try:
            items = tuple(sorted(((canon(k, _depth + 1, _seen), canon(x, _depth + 1, _seen))
                                  for k, x in dict.items(v)), key=repr))
            extra = ()
            if t is not dict and hasattr(v, "__dict__"):
                extra = tuple(sorted(((k, canon(x, _depth + 1, _seen)) for k, x in v.__dict__.items()
                                      if not k.startswith("__")), key=repr))
            return (t.__name__, items, extra)
        finally:
            _seen.discard(id(v))
    if hasattr(t, "__parser__") and hasattr(v, "__dict__"):
        _seen.add(id(v))
        try:
            return ("dataclass", t.__name__,
                    tuple(sorted(((k, canon(x, _depth + 1, _seen)) for k, x in v.__dict__.items()
                                  if not k.startswith("__")), key=repr)))
        finally:
            _seen.discard(id(v))
    if isinstance(v, type):
        return ("class", getattr(v, "__qualname__", repr(v)))
    if t.__name__ == "Unreg":
        return ("Unreg", canon(v.v, _depth + 1, _seen))
    return ("obj", t.__name__)


def _tn(t, base):
    return base.__name__ if t is base else f"{t.__name__}({base.__name__})"


def short(v, n=120):
    try:
        r = repr(v)
    except Exception as e:  # hostile __repr__
        r = f"<{type(v).__name__} repr failed: {type(e).__name__}>"
    return r if len(r) <= n else r[:n] + "..."
