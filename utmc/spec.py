"""Declaration specs: a tiny type grammar with
   expr(spec)      -> expression (utmc.ns vocabulary) that builds the utype type through the public API
   build(spec)     -> the type object (cached per process)
   conforms(spec, value, waive) -> the type-directed conformance predicate of C01 (never calls utype)

Spec forms (nested tuples, hashable):
   ('t', name)                              plain class, by ns name ('int', 'Color', 'Sequence', 'Any', ...)
   ('r', origin|None, cons, route)          constrained type; cons = (('gt','0'), ...) with bound *expressions*;
                                            route: 'cls' = class R(origin, Rule), 'ann' = annotation + Field constraints,
                                            'ori' = class R(Rule): __origin__ = origin
   ('g', ctor, args)                        List/Set/FrozenSet/TupleVar/Tuple/Dict/Optional/Union/Deque/Sequence/Mapping
   ('gc', ctor, args, cons)                 generic with constraints (annotation + Field constraints)
   ('op', op, args)                         '|', '^', '&', '~'
   ('lit', values)                          Literal[...], value expressions
   ('dc', base, fields, options_expr|None)  data class; fields = ((name, spec, default_expr|None), ...)
   ('n', expr, spec)                        a type shipped by utype (utype.types.*) named by `expr`, whose documented
                                            meaning is `spec`
"""
import collections.abc
import datetime as _dt
from collections import deque
from decimal import Decimal

from . import ns
from .refcons import ref_constraint
from .universe import ev

LAX_PREFIX = "Lax("

ABSTRACT = {"Sequence": collections.abc.Sequence, "Mapping": collections.abc.Mapping,
            "Iterable": collections.abc.Iterable}


# -------------------------------------------------------------------------------- expressions


def _safe_eq(a, b):
    """equality that treats a raising comparison (hostile values) as 'not equal'"""
    try:
        return bool(a == b)
    except Exception:
        return False

def _cons_kw(cons):
    return ", ".join(f"{k}={v}" for k, v in cons)


def ann_expr(spec):
    """expression usable as an *annotation* (typing generics stay typing generics)"""
    k = spec[0]
    if k == "t":
        return spec[1]
    if k == "n":
        return spec[1]
    if k == "r":
        _, origin, cons, route = spec
        o = "None" if origin is None else origin
        if route == "cls":
            return f"RC({o}, {_cons_kw(cons)})" if cons else f"RC({o})"
        if route == "ori":
            return f"RO({o}, {_cons_kw(cons)})"
        return f"T({o}, {_cons_kw(cons)})"
    if k == "g":
        _, ctor, args = spec
        a = [ann_expr(x) for x in args]
        if ctor == "TupleVar":
            return f"Tuple[{a[0]}, ...]"
        if ctor in ("Sequence", "Mapping", "Iterable", "Deque"):
            return f"typing.{ctor}[{', '.join(a)}]"
        return f"{ctor}[{', '.join(a)}]"
    if k == "gc":
        _, ctor, args, cons = spec
        return f"T({ann_expr(('g', ctor, args))}, {_cons_kw(cons)})"
    if k == "op":
        _, op, args = spec
        a = [ann_expr(x) for x in args]
        fn = {"|": "any_of", "^": "one_of", "&": "all_of", "~": "not_of"}[op]
        return f"{fn}({', '.join(a)})"
    if k == "lit":
        return f"Literal[{', '.join(spec[1])}]"
    if k == "dc":
        _, base, fields, opts = spec
        fs = []
        for name, fspec, default in fields:
            if fspec[0] == "r" and fspec[3] == "anyfield":
                # annotated Any, the constraints declared on the Field
                fs.append(f"{name}=(Any, Field({_cons_kw(fspec[2])}{', default=' + default if default else ''}))")
                continue
            if default is None:
                fs.append(f"{name}=({ann_expr(fspec)},)")
            else:
                fs.append(f"{name}=({ann_expr(fspec)}, {default})")
        o = f", _options={opts}" if opts else ""
        if base.endswith("3"):
            return f"SC3('S', {base[:-1]}{o}, {', '.join(fs)})"
        return f"SC('S', {base}{o}, {', '.join(fs)})"
    raise ValueError(spec)


def type_expr(spec):
    """expression of something `type_transform(x, <it>)` and `<it>(x)` accept"""
    if spec[0] in ("g", "lit"):
        return f"T({ann_expr(spec)})"
    return ann_expr(spec)


_BUILT = {}


def build(spec):
    t = _BUILT.get(spec)
    if t is None:
        t = _BUILT[spec] = ev(type_expr(spec))
    return t


def clear_built():
    _BUILT.clear()


def describe(spec):
    return type_expr(spec)


def shape(spec):
    """declaration shape for fingerprints: constructor tree with leaf kinds, bounds dropped"""
    k = spec[0]
    if k == "t":
        return spec[1]
    if k == "n":
        return spec[1]
    if k == "r":
        return "%s{%s}" % (spec[1] or "", ",".join(("lax_" if v.startswith(LAX_PREFIX) else "") + c for c, v in spec[2]))
    if k == "g":
        return "%s[%s]" % (spec[1], ",".join(shape(a) for a in spec[2]))
    if k == "gc":
        return "%s[%s]{%s}" % (spec[1], ",".join(shape(a) for a in spec[2]), ",".join(c for c, v in spec[3]))
    if k == "op":
        return "(%s)" % (" %s " % spec[1]).join(shape(a) for a in spec[2]) if spec[1] != "~" else "~" + shape(spec[2][0])
    if k == "lit":
        return "Literal"
    if k == "dc":
        return "%s(%s)" % (spec[1], ",".join(f"{n}:{shape(s)}" + ("=" if d is not None else "") for n, s, d in spec[2]))
    return "?"


# -------------------------------------------------------------------------------- conformance

def _leaf_class(name):
    if name in ABSTRACT:
        return ABSTRACT[name]
    return ev(name)


class Waive:
    """options that waive (part of) the guarantee"""
    def __init__(self, preserve_items=False, preserve_keys=False, preserve_values=False,
                 ignore_constraints=False, unresolved_ignore=False, addition=None, no_data_loss=False):
        self.preserve_items = preserve_items
        self.preserve_keys = preserve_keys
        self.preserve_values = preserve_values
        self.ignore_constraints = ignore_constraints
        self.unresolved_ignore = unresolved_ignore
        self.addition = addition
        self.no_data_loss = no_data_loss


NOWAIVE = Waive()


def strict_cons_hold(cons, v, why=None):
    """all *strict* constraints hold under the reference semantics (don't-cares count as holding)"""
    # const / enum make the library ignore every other constraint (documented in validate_constraints:
    # "ignore other constraints"); the declaration keeps only that one
    names = [c for c, _ in cons]
    if "const" in names:
        cons = [(c, b) for c, b in cons if c == "const"]
    elif "enum" in names:
        cons = [(c, b) for c, b in cons if c == "enum"]
    for c, bexpr in cons:
        if bexpr.startswith(LAX_PREFIX):
            continue
        if c in ("contains", "min_contains", "max_contains"):
            continue    # judged in C02 with the contained leaf as a black box
        bound = ev(bexpr)
        if c == "unique_items" and not bound:
            continue
        r = ref_constraint(c, bound, v)
        if r is False:
            if why is not None:
                why.append(f"constraint-{c}: {c}={bexpr} violated by {v!r}")
            return False
    return True


def conforms(spec, v, w=NOWAIVE, why=None, _depth=0):
    """True iff v conforms to spec. `why` (list) receives the first reason for a False."""
    if _depth > 80:
        return True
    k = spec[0]

    def no(msg):
        if why is not None and not why:
            why.append(msg)
        return False

    if k == "n":
        return conforms(spec[2], v, w, why, _depth)
    if k == "t":
        name = spec[1]
        if name == "Any":
            return True
        cls = _leaf_class(name)
        if name == "Unreg" and w.unresolved_ignore:
            return True
        if name == "bool":
            return type(v) is bool or no(f"not-instance: {v!r} is not a bool")
        if name == "NoneType":
            return v is None or no(f"not-instance: {v!r} is not None")
        return isinstance(v, cls) or no(f"not-instance: {type(v).__name__} {v!r} is not an instance of {name}")
    if k == "r":
        _, origin, cons, route = spec
        if origin is not None:
            if not conforms(("t", origin), v, w, why, _depth + 1):
                return False
            if v is None:
                return True
        if w.ignore_constraints:
            return True
        return strict_cons_hold(cons, v, why)
    if k in ("g", "gc"):
        ctor, args = spec[1], spec[2]
        if ctor == "Optional":
            return v is None or conforms(args[0], v, w, why, _depth + 1)
        if ctor == "Union":
            if any(conforms(a, v, w, None, _depth + 1) for a in args):
                return True
            return no(f"no-union-member: {v!r} conforms to no member of the union")
        if ctor in ("List", "Set", "FrozenSet", "TupleVar", "Deque", "Sequence", "Iterable"):
            base = {"List": list, "Set": set, "FrozenSet": frozenset, "TupleVar": tuple, "Deque": deque,
                    "Sequence": collections.abc.Sequence, "Iterable": collections.abc.Iterable}[ctor]
            if not isinstance(v, base):
                return no(f"not-instance: {type(v).__name__} is not a {ctor}")
            if not w.preserve_items:
                for x in v:
                    if not conforms(args[0], x, w, why, _depth + 1):
                        return False
        elif ctor == "Tuple":
            if not isinstance(v, tuple):
                return no(f"not-instance: {type(v).__name__} is not a tuple")
            if len(v) < len(args):
                return no(f"tuple-short: tuple {v!r} shorter than its {len(args)} declared items")
            if (w.no_data_loss or w.addition is False) and len(v) > len(args):
                return no(f"tuple-extra: tuple {v!r} keeps extra items although they must be rejected")
            if not w.preserve_items:
                for a, x in zip(args, v):
                    if not conforms(a, x, w, why, _depth + 1):
                        return False
        elif ctor in ("Dict", "Mapping"):
            base = dict if ctor == "Dict" else collections.abc.Mapping
            if not isinstance(v, base):
                return no(f"not-instance: {type(v).__name__} is not a {ctor}")
            for kk, vv in v.items():
                if not w.preserve_keys and not conforms(args[0], kk, w, why, _depth + 1):
                    return False
                if len(args) > 1 and not w.preserve_values and not conforms(args[1], vv, w, why, _depth + 1):
                    return False
        else:
            raise ValueError(spec)
        if k == "gc" and not w.ignore_constraints:
            return strict_cons_hold(spec[3], v, why)
        return True
    if k == "lit":
        vals = [ev(e) for e in spec[1]]
        for c in vals:
            if ref_constraint("const", c, v):
                return True
        # several literal values form an enum (membership by ==)
        if len(vals) > 1 and any(_safe_eq(v, c) for c in vals):
            return True
        return no(f"not-literal: {v!r} is not one of the literals {spec[1]}")
    if k == "op":
        _, op, args = spec
        if op in ("|", "^"):
            if any(conforms(a, v, w, None, _depth + 1) for a in args):
                return True
            return no(f"no-argument: {v!r} conforms to no argument of {op}")
        if op == "&":
            # the running value was last produced by the last argument
            return conforms(args[-1], v, w, why, _depth + 1)
        if op == "~":
            return True     # identity of the input is checked by C09
    if k == "dc":
        _, base, fields, opts = spec
        # every evaluation of the declaration expression creates a new class: judge by structure
        if not (isinstance(v, ev(base)) and type(v).__name__ == "S" and hasattr(type(v), "__parser__")):
            return no(f"not-instance: {type(v).__name__} is not an instance of the data class")
        for name, fspec, default in fields:
            if name in v.__dict__:
                val = v.__dict__[name]
            elif isinstance(v, dict) and dict.__contains__(v, name):
                val = dict.__getitem__(v, name)
            else:
                if default is None:
                    return no(f"field-absent: required field {name} absent from the instance")
                continue
            if default is not None:
                # declared defaults are trusted
                try:
                    if _safe_eq(val, ev(default)) and type(val) is type(ev(default)):
                        continue
                except Exception:
                    pass
            if not conforms(fspec, val, w, why, _depth + 1):
                return False
        return True
    raise ValueError(spec)
