"""Type-directed input generation (expression strings): for a declaration whose origin is a
sequence / mapping / data class, all containers of every input container kind with 0..k elements
drawn from the sub-alphabet relevant to the element type (accepted / convertible / rejected)."""
import itertools

from .universe import ev

BASE_REPS = {
    "int": ["1", "2", "'3'", "True", "3.5", "'x'", "None", "[1]", "b'4'", "Decimal('5')", "float('inf')", "0", "-1"],
    "float": ["1.5", "2", "'3.5'", "'x'", "None", "float('nan')", "True", "float('inf')", "0.0"],
    "Decimal": ["Decimal('1.5')", "2", "'3.50'", "'x'", "None", "1.5", "Decimal('NaN')"],
    "str": ["'a'", "'b'", "1", "None", "b'c'", "b'\\xff'", "BadStr()", "['a']", "3.5", "''", "'abcd'"],
    "bytes": ["b'a'", "'b'", "1", "None", "b'abc'"],
    "bool": ["True", "False", "0", "1", "'true'", "'x'", "2", "None"],
    "NoneType": ["None", "'null'", "0", "''", "'x'"],
    "date": ["date(2020,1,2)", "'2020-01-03'", "datetime(2020,1,2,3,4,5)", "'x'", "0", "None", "'2020-01-02 03:04:05'"],
    "datetime": ["datetime(2020,1,2,3,4,5)", "'2020-01-03T00:00:00'", "date(2020,1,2)", "'x'", "0", "None"],
    "time": ["time(3,4,5)", "'03:04:06'", "'x'", "None"],
    "timedelta": ["timedelta(seconds=5)", "6", "'P1D'", "'x'", "None"],
    "UUID": ["UUID1", "'12345678-1234-5678-1234-567812345678'", "'x'", "1", "None"],
    "Color": ["Color.RED", "'green'", "'RED'", "'x'", "1", "None"],
    "Num": ["Num.ONE", "2", "'1'", "'TWO'", "3", "None"],
    "Tricky": ["Tricky.A", "'A'", "'B'", "'x'"],
    "Plain": ["Plain.X", "1", "'y'", "'X'", "'x'"],
    "Any": ["1", "'a'", "None", "[1]", "object()"],
    "Unreg": ["Unreg(1)", "1", "None"],
    "list": ["[1]", "(1,2)", "'[1,2]'", "'a,b'", "1", "None", "{'a':1}"],
    "tuple": ["(1,)", "[1,2]", "'(1,2)'", "1", "None"],
    "set": ["{1}", "[1,1]", "'{1,2}'", "1", "None", "[[1]]"],
    "dict": ["{'a':1}", "[('a',1)]", "'{\"a\":1}'", "'a=1&b=2'", "1", "None", "[1]"],
    "MyInt": ["MyInt(5)", "1", "'3'", "'x'"],
    "MyStr": ["MyStr('7')", "'a'", "1"],
    "complex": ["1+1j", "1", "'1+1j'", "'x'"],
}
DEFAULT_REPS = ["1", "'a'", "None", "[1]", "3.5", "True"]


def expr_of(v):
    """a vocabulary expression for a simple value"""
    if isinstance(v, float):
        if v != v:
            return "float('nan')"
        if v in (float("inf"), float("-inf")):
            return "float('%s')" % ("inf" if v > 0 else "-inf")
    import enum as _enum
    if isinstance(v, _enum.Enum):
        return f"{type(v).__name__}.{v.name}"       # (the classes of the vocabulary are in the namespace by name)
    return repr(v)


def _num_window(origin, cons):
    out = []
    for c, b in cons:
        if b.startswith("Lax("):
            b = b[4:-1]
        if c in ("gt", "ge", "lt", "le", "multiple_of", "const") and origin in ("int", "float", "Decimal", "MyInt", None):
            try:
                bv = ev(b)
            except Exception:
                continue
            if isinstance(bv, (int, float)) and not isinstance(bv, bool) and bv == bv and abs(bv) != float("inf"):
                for d in (-1, 0, 1):
                    out.append(repr(bv + d))
                    out.append(repr(str(bv + d)))
        if c in ("length", "max_length", "min_length"):
            try:
                n = int(ev(b))
            except Exception:
                continue
            for m in (n - 1, n, n + 1):
                if m < 0:
                    continue
                if origin in ("str", "MyStr", None):
                    out.append(repr("a" * m))
                if origin == "bytes":
                    out.append(repr(b"a" * m))
                if origin in ("list", None):
                    out.append(repr([1] * m))
                if origin == "tuple":
                    out.append(repr(tuple([1] * m)))
                if origin == "set":
                    out.append(repr(set(range(m))) if m else "set()")
                if origin == "dict":
                    out.append(repr({str(i): i for i in range(m)}))
                if origin in ("int", "float"):
                    out.append("1" * m if m else "0")
        if c == "max_digits":
            n = int(ev(b))
            out += ["9" * n, "1" + "0" * n, "0." + "0" * (n - 1) + "1" if n > 1 else "0.1", "Decimal('0.%s')" % ("1" * (n + 1))]
        if c == "decimal_places":
            n = int(ev(b))
            out += ["Decimal('1.%s')" % ("5" * m) for m in (max(n - 1, 1), n or 1, n + 1)] + ["1." + "5" * (n + 1)]
        if c in ("enum",):
            try:
                out += [expr_of(x) for x in ev(b)][:3]
            except Exception:
                pass
        if c == "regex":
            out += ["'12'", "'a'", "'ab'", "'1.5'", "'abc'", "12"]
        if c == "unique_items":
            out += ["[1, 1]", "[1, 2]", "[1, True]", "(1, 1.0)", "['a', 'a']"]
    return out


def reps_for(spec, limit=12):
    k = spec[0]
    if k == "t":
        return list(BASE_REPS.get(spec[1], DEFAULT_REPS))[:limit]
    if k == "n":
        return reps_for(spec[2], limit)
    if k == "r":
        base = list(BASE_REPS.get(spec[1], DEFAULT_REPS))
        win = _num_window(spec[1], spec[2])
        out = []
        for e in win + base:
            if e not in out:
                out.append(e)
        return out[:limit + 6]
    if k == "lit":
        return list(spec[1]) + ["'zz'", "None", "1"]
    if k in ("g", "gc"):
        ctor, args = spec[1], spec[2]
        if ctor in ("Optional", "Union"):
            out = ["None"]
            for a in args:
                for e in reps_for(a, 6):
                    if e not in out:
                        out.append(e)
            return out[:limit]
        return directed_inputs(spec, k=1)[:limit]
    if k == "op":
        out = []
        for a in spec[2]:
            for e in reps_for(a, 6):
                if e not in out:
                    out.append(e)
        return out[:limit]
    if k == "dc":
        return directed_inputs(spec, k=1)[:limit]
    return list(DEFAULT_REPS)


def _hashable(expr):
    try:
        hash(ev(expr))
        return True
    except Exception:
        return False


def _seqs(reps, k):
    for n in range(0, k + 1):
        for combo in itertools.product(reps, repeat=n):
            yield combo


def directed_inputs(spec, k=2):
    kind = spec[0]
    out = []
    if kind == "n":
        return directed_inputs(spec[2], k)
    if kind == "r":
        return reps_for(spec)
    if kind == "lit":
        return reps_for(spec)
    if kind == "op":
        for a in spec[2]:
            out += directed_inputs(a, min(k, 1))
        return _dedup(out)
    if kind in ("g", "gc"):
        ctor, args = spec[1], spec[2]
        if ctor in ("Optional", "Union"):
            for a in args:
                out += directed_inputs(a, k)
            out += reps_for(spec)
            return _dedup(out)
        if ctor in ("List", "Set", "FrozenSet", "TupleVar", "Deque", "Sequence", "Iterable"):
            reps = reps_for(args[0], 9 if k <= 2 else 7)
            hreps = [r for r in reps if _hashable(r)]
            for combo in _seqs(reps, k):
                inner = ", ".join(combo)
                out.append(f"[{inner}]")
                if len(combo) <= 2:
                    out.append(f"({inner}{',' if len(combo) == 1 else ''})")
                    out.append(f"gen({inner})")
            for combo in _seqs(hreps, min(k, 2)):
                if combo:
                    out.append("{" + ", ".join(combo) + "}")
                    out.append("frozenset({" + ", ".join(combo) + "})")
            out += ["set()", "deque([1, 'x'])", "'1,2'", "'1;x'", "'[1, \"x\"]'", "{'a': 1}.keys()", "{1: 'x'}",
                    "range(2)", "'[]'", "None", "1", "'x'", "{}"]
            return _dedup(out)
        if ctor == "Tuple":
            n = len(args)
            reps = [reps_for(a, 5) for a in args]
            for m in range(0, n + 2):
                pools = [reps[i] if i < n else ["1", "'x'"] for i in range(m)]
                for combo in itertools.product(*pools):
                    inner = ", ".join(combo)
                    out.append(f"[{inner}]")
                    if m <= n:
                        out.append(f"({inner}{',' if m == 1 else ''})")
            out += ["'1,2'", "None", "1", "'(1, \"a\")'", "{1, 2}", "gen(1, 2)"]
            return _dedup(out)
        if ctor in ("Dict", "Mapping"):
            kreps = [r for r in reps_for(args[0], 6) if _hashable(r)]
            vreps = reps_for(args[1], 6) if len(args) > 1 else ["1"]
            pairs = [(a, b) for a in kreps for b in vreps]
            out.append("{}")
            for a, b in pairs:
                out.append("{%s: %s}" % (a, b))
                out.append("[(%s, %s)]" % (a, b))
            if k >= 2:
                for (a, b), (c, d) in itertools.combinations(pairs[::2], 2):
                    if a != c:
                        out.append("{%s: %s, %s: %s}" % (a, b, c, d))
            out += ["'{\"1\": 2}'", "'a=1&b=x'", "[1, 2]", "None", "1", "'x'", "[(1, 2, 3)]", "{(1, 2): 3}", "[[1, 2]]",
                    "{None: 1}", "MyDict(a=1)", "elem(a='1')"]
            return _dedup(out)
    if kind == "dc":
        fields = spec[2]
        pools = []
        for name, fs, default in fields:
            pools.append([None] + reps_for(fs, 8 if len(fields) == 1 else 4))
        for combo in itertools.product(*pools):
            items = [f"'{fields[i][0]}': {v}" for i, v in enumerate(combo) if v is not None]
            out.append("{" + ", ".join(items) + "}")
            out.append("{" + ", ".join(items + ["'zz': 1"]) + "}")
        name0 = fields[0][0]
        out += ["[('%s', 1)]" % name0, "'{\"%s\": 1}'" % name0, "'%s=1&zz=2'" % name0, "None", "1", "[]", "[{'%s': 1}]" % name0,
                "{1: 2}", "{'%s': 1, 1: 2}" % name0, "{None: 1}", "[1, 2]", "MyDict(%s=1)" % name0, "elem(%s='1')" % name0,
                "[{'%s': 1}, {'%s': 2}]" % (name0, name0),
                # keys named like the parameters of the generated __init__ / like Python's own
                "{'%s': 1, '_obj_self': 2}" % name0, "{'%s': 1, '_d': {'%s': 2}}" % (name0, name0), "{'%s': 1, 'self': 2, 'cls': 3}" % name0,
                "{'_d': 5}"]
        return _dedup(out)
    return out


def _dedup(lst):
    seen, out = set(), []
    for e in lst:
        if e not in seen:
            seen.add(e)
            out.append(e)
    return out
