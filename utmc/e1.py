"""E1 — product-space driver: (declaration spec, call form, options, input expression) -> outcome.

Every case is executed through the public API on the real library; the same text that is
exec'd here is what the replay script contains.
"""
import sys
import traceback

from . import ns, spec as S
from .core import call_guarded  # noqa: F401 (re-exported)
from .universe import ev, _NS

import utype
from utype.utils import exceptions as uexc

ParseError = uexc.ParseError

# form -> (setup template, call template).  ANN / TYPE / OPTS are substituted textually.
FORMS = {
    "tt": ("", "type_transform(x, TYPE, options=Options(OPTS))"),
    "call": ("", "TYPE(x)"),
    "dccall": ("", "dccall(TYPE, x)"),
    "dcfrom": ("", "TYPE.__from__(x, options=Options(OPTS))"),
    "dcposkw": ("", "TYPE(x, zz=1)"),          # a positional mapping together with a keyword
    "field": ("W = SC('W', Schema, Options(OPTS), a=(ANN,))", "W(a=x)"),
    "dfield": ("W = SC('W', DataClass, Options(OPTS), a=(ANN,))", "W(a=x)"),
    # assignment to an optional field of an existing instance (attribute / item / DataClass attribute)
    "setattr": ("W = SC('W', Schema, Options(OPTS), a=(ANN, Field(required=False)))", "SETA(W(), x)"),
    "setitem": ("W = SC('W', Schema, Options(OPTS), a=(ANN, Field(required=False)))", "SETA(W(), x, True)"),
    "dsetattr": ("W = SC('W', DataClass, Options(OPTS), a=(ANN, Field(required=False)))", "SETA(W(), x)"),
    "from": ("W = SC('W', Schema, None, a=(ANN,))", "W.__from__({'a': x}, options=Options(OPTS))"),
    "param": ("ENTERED = []\n@utype.parse(options=Options(OPTS))\ndef W(a: ANN):\n    ENTERED.append(1)\n    return a", "W(x)"),
    "kwparam": ("ENTERED = []\n@utype.parse(options=Options(OPTS))\ndef W(*, a: ANN):\n    ENTERED.append(1)\n    return a", "W(a=x)"),
    "ret": ("@utype.parse(options=Options(OPTS))\ndef W(a) -> ANN:\n    return a", "W(x)"),
    "args": ("ENTERED = []\n@utype.parse(options=Options(OPTS))\ndef W(*a: ANN):\n    ENTERED.append(1)\n    return a", "W(x)"),
    "kwargs": ("ENTERED = []\n@utype.parse(options=Options(OPTS))\ndef W(**k: ANN):\n    ENTERED.append(1)\n    return k", "W(k=x)"),
}


def opts_text(opts: dict):
    return ", ".join(f"{k}={v!r}" if not isinstance(v, str) or not v.startswith("@") else f"{k}={v[1:]}"
                     for k, v in sorted(opts.items()))


_CALLERS = {}


def caller(spec, form, opts: dict):
    """returns (fn(x) -> result, setup_text, call_text); built once per (spec, form, opts)"""
    key = (spec, form, tuple(sorted(opts.items())))
    c = _CALLERS.get(key)
    if c is not None:
        return c
    setup_t, call_t = FORMS[form]
    ot = opts_text(opts)
    ann = S.ann_expr(spec)
    typ = S.type_expr(spec)
    setup = setup_t.replace("ANN", ann).replace("OPTS", ot)
    call_code = call_t.replace("ANN", ann).replace("OPTS", ot)
    env = dict(_NS)
    if "TYPE" in call_t:
        env["TYPE_"] = S.build(spec)
        call_code = call_code.replace("TYPE", "TYPE_")
    if setup:
        exec(setup, env)
    fn = eval(compile("lambda x: " + call_code, "<utmc-call>", "eval"), env)
    fn.entered = env.get("ENTERED")
    if "TYPE" in call_t:
        setup = (setup + "\n" if setup else "") + f"TYPE_ = {typ}"
    c = _CALLERS[key] = (fn, setup, call_code)
    return c


def unwrap(form, result):
    """the parsed value(s) inside what the call form returned: list of values to judge"""
    if form in ("field", "from"):
        return [dict.__getitem__(result, "a")] if dict.__contains__(result, "a") else []
    if form == "dfield":
        return [result.__dict__["a"]] if "a" in result.__dict__ else []
    if form == "args":
        return list(result)
    if form == "kwargs":
        return [result["k"]] if "k" in result else []
    return [result]


def is_utype_type(t):
    """constrained / logical types and data classes (the statement's scope), not plain builtins"""
    from utype.parser.rule import LogicalType
    return isinstance(t, LogicalType) or hasattr(t, "__parser__")


def reset_callers():
    _CALLERS.clear()
    S.clear_built()
    try:
        from utype.parser import base as _pb
        _pb.__parsers__.clear()
    except Exception:
        pass


def innermost_utype_frame(exc):
    tb = exc.__traceback__
    site = None
    while tb is not None:
        fn = tb.tb_frame.f_code.co_filename
        if "/utype/" in fn:
            site = fn.split("/utype/", 1)[1] + ":" + tb.tb_frame.f_code.co_name
        tb = tb.tb_next
    return site or "outside-utype"


def classify(status, payload):
    """-> (kind, detail) kind in value | perr | other | nonterm"""
    if status == "ok":
        return "value", payload
    if status == "nonterm":
        return "nonterm", payload
    e = payload
    if isinstance(e, ParseError):
        return "perr", e
    return "other", e


def run_case(spec, form, opts, valexpr, wall_s=1.0, step_budget=400_000):
    fn, _, _ = caller(spec, form, opts)

    def thunk():
        return fn(ev(valexpr))
    st, payload = call_guarded(thunk, wall_s=wall_s, step_budget=step_budget)
    return classify(st, payload)


def script(spec, form, opts, valexpr, check_lines, header=""):
    """standalone reproduction: exit 1 when `check_lines` set bad=True"""
    _, setup, call_code = caller(spec, form, opts)
    lines = ["import sys, os", "sys.path.insert(0, '/verif')", "from utmc.ns import *", header, setup,
             f"x = {valexpr}", "bad = False", "try:", f"    r = {call_code}", "    out = ('value', r)",
             "except exc.ParseError as e:", "    out = ('parse-error', e)",
             "except Exception as e:", "    out = ('other-exception', e)",
             "print(out[0], type(out[1]).__name__, repr(out[1])[:300])"]
    lines += check_lines
    lines += ["sys.exit(1 if bad else 0)"]
    return "\n".join(l for l in lines if l is not None) + "\n"


def value_shape(v, depth=0):
    """input *shape* for fingerprints: kinds of values"""
    t = type(v).__name__
    if depth > 2:
        return t
    if isinstance(v, (list, tuple, set, frozenset)):
        kinds = sorted({value_shape(x, depth + 1) for x in list(v)[:4]})
        return f"{t}[{','.join(kinds)}]"
    if isinstance(v, dict):
        ks = sorted({value_shape(x, depth + 1) for x in list(v.keys())[:4]})
        vs = sorted({value_shape(x, depth + 1) for x in list(v.values())[:4]})
        return f"{t}[{','.join(ks)}:{','.join(vs)}]"
    if isinstance(v, float):
        if v != v:
            return "float-nan"
        if v in (float("inf"), float("-inf")):
            return "float-inf"
    if isinstance(v, str):
        return "str" if type(v) is str else t
    return t
