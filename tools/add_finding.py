"""tools/add_finding.py fixed <id> <prop> <commit subject substring> <what failed>   |   open <id> <prop> <what> <why_not_fixed> <pattern>..."""
import json, subprocess, sys
p = '/verif/known_findings.json'
d = json.load(open(p))
mode, fid, prop = sys.argv[1:4]
d['findings'] = [f for f in d['findings'] if f['id'] != fid]
if mode == 'fixed':
    sub, what = sys.argv[4:6]
    log = subprocess.check_output(['git', '-C', '/repo', 'log', '--format=%h %s'], text=True).splitlines()
    h = [l.split()[0] for l in log if sub in l]
    assert len(h) == 1, (sub, h)
    d['findings'].append(dict(id=fid, property=prop, status='fixed', commit=h[0],
                              line=f"fixed: property={prop} {h[0]} {what}", what=what))
else:
    what, why = sys.argv[4:6]
    d['findings'].append(dict(id=fid, property=prop, status='open', what=what, fingerprints=sys.argv[6:], why_not_fixed=why))
json.dump(d, open(p, 'w'), indent=1)
print(len(d['findings']), 'findings')
