#!/bin/bash
# tools/try_mutant.sh <patch.diff> <demo.py|-> <tier> <PROP> [PROP...]
# Confirms a seeded change in a scratch worktree of /repo (outside /repo and /verif): the patch applies, the
# baseline tests pass, the demo passes clean and fails patched; then runs the listed checks against the patched copy.
set -u
PATCH=$(realpath "$1"); DEMO="$2"; TIER="$3"; shift 3
WT=/dev/shm/utmc-mut-$$
git -C /repo worktree add -q --detach "$WT" HEAD || exit 2
trap 'git -C /repo worktree remove --force "$WT" >/dev/null 2>&1; rm -rf "$WT"' EXIT
cd "$WT"
if [ "$DEMO" != "-" ]; then
  DEMO=$(realpath "$DEMO")
  PYTHONPATH="$WT" /venv/bin/python "$DEMO" >/dev/null 2>&1; echo "demo clean exit=$?"
fi
git apply "$PATCH" || { echo "PATCH DOES NOT APPLY"; exit 2; }
T=$(/venv/bin/python -m pytest -q -p no:cacheprovider -x tests 2>&1 | tail -1); echo "tests: $T"
if [ "$DEMO" != "-" ]; then
  PYTHONPATH="$WT" /venv/bin/python "$DEMO" >/dev/null 2>&1; echo "demo patched exit=$?"
fi
cd /verif
for P in "$@"; do
  OUT=$(UTYPE_SRC="$WT" UTMC_EVIDENCE_DIR=/dev/shm/utmc-mut-ev-$$ UTMC_REPLAY_DIR=/dev/shm/utmc-mut-ev-$$/replays ./check "$P" --tier "$TIER" 2>&1); RC=$?
  echo "check $P rc=$RC $(echo "$OUT" | grep -c '^VIOLATION') violation lines"
  echo "$OUT" | grep -A1 '^VIOLATION' | head -6
  echo "$OUT" | tail -1
done
rm -rf /dev/shm/utmc-mut-ev-$$
