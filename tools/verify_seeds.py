#!/venv/bin/python
"""tools/verify_seeds.py [PROP ...] [--jobs N] -- regression of detection: every stored seeded change is applied to a scratch
worktree of /repo HEAD (under /dev/shm) and the check that is recorded as catching it is run (quick tier) against that
copy; it must exit 1.  Seeds whose patch no longer applies to the current tree (the code they touch was repaired since) and
seeds marked superseded are reported and skipped.  Prints one line per seed and a summary; exit 1 if a seed is missed."""
import glob, json, os, re, subprocess, sys
from concurrent.futures import ThreadPoolExecutor

args = [a for a in sys.argv[1:] if not a.startswith("--")]
jobs = 2
for a in sys.argv[1:]:
    if a.startswith("--jobs"):
        jobs = int(a.split("=")[1])


def detecting_check(meta):
    d = meta.get("detected_by", "")
    m = re.search(r"(?<!not )caught by (C\d\d)", d) or re.match(r"\s*(C\d\d) (quick|thorough)", d)
    return m.group(1) if m else meta["property"]


def one(sd):
    meta = json.load(open(sd + "/meta.json"))
    sid = meta["id"]
    if "superseded" in sid:
        return sid, "SKIP superseded"
    check = detecting_check(meta)
    wt = f"/dev/shm/utmc-vs-{os.getpid()}-{abs(hash(sid)) % 10**8}"
    subprocess.run(["git", "-C", "/repo", "worktree", "add", "-q", "--detach", wt, "HEAD"], check=True)
    try:
        r = subprocess.run(["git", "apply", os.path.abspath(sd + "/patch.diff")], cwd=wt, capture_output=True, text=True)
        if r.returncode != 0:
            r = subprocess.run(["git", "apply", "--3way", os.path.abspath(sd + "/patch.diff")], cwd=wt, capture_output=True, text=True)
        if r.returncode != 0:
            return sid, "SKIP patch does not apply to the current tree"
        env = dict(os.environ, UTYPE_SRC=wt, UTMC_EVIDENCE_DIR=wt + "-ev", UTMC_REPLAY_DIR=wt + "-ev/replays")
        r = subprocess.run(["./check", check, "--tier", "quick"], cwd="/verif", env=env, capture_output=True, text=True)
        n = sum(1 for l in r.stdout.splitlines() if l.startswith("VIOLATION"))
        return sid, ("DETECTED" if r.returncode == 1 and n else "MISSED") + f" by {check} quick (rc={r.returncode}, {n} violation lines)"
    finally:
        subprocess.run(["git", "-C", "/repo", "worktree", "remove", "--force", wt], capture_output=True)
        subprocess.run(["rm", "-rf", wt, wt + "-ev"])


seeds = sorted(d.rstrip("/") for d in glob.glob("/verif/seeded/*/"))
if args:
    seeds = [s for s in seeds if json.load(open(s + "/meta.json"))["property"] in args]
missed = 0
with ThreadPoolExecutor(jobs) as ex:
    for sid, res in ex.map(one, seeds):
        print(f"{sid}: {res}", flush=True)
        missed += res.startswith("MISSED")
print(f"VERIFY-SEEDS {len(seeds)} seeds, {missed} missed")
sys.exit(1 if missed else 0)
