"""tools/gen_results.py: regenerates the tables of DESIGN.md section 9 (between the AUTO markers) from
known_findings.json, seeded/*/meta.json and the evidence files."""
import glob, json, os, re
V = '/verif'
kf = json.load(open(f'{V}/known_findings.json'))['findings']
out = []
out.append("### 9.1 Genuine defects repaired in /repo (one `fix:` commit each)\n")
out.append("| property | commit | what failed |\n|---|---|---|")
for f in kf:
    if f.get('status') == 'fixed':
        out.append(f"| {f['property']} | `{f['commit']}` | {f['what'].replace('|', '/')} |")
out.append("\n### 9.2 Genuine defects recorded, not repaired (`known_findings.json`, status open)\n")
out.append("| id | what fails | why not repaired |\n|---|---|---|")
for f in kf:
    if f.get('status', 'open') == 'open':
        out.append(f"| {f['id']} | {f['what'].replace('|', '/')[:420]} | {f.get('why_not_fixed', '').replace('|', '/')[:300]} |")
out.append("\n### 9.3 Seeded changes (`/verif/seeded/<id>/`) and the checks that catch them\n")
out.append("| seed | breaks | needs to manifest (author's note, abridged) | detected by |\n|---|---|---|---|")
for d in sorted(glob.glob(f'{V}/seeded/*')):
    m = json.load(open(d + '/meta.json'))
    need = ' '.join(m['needs_to_manifest'].split())[:260].replace('|', '/')
    out.append(f"| {m['id']} | {m['property']} | {need} | {m['detected_by'].replace('|', '/')} |")
out.append("\n### 9.4 Size of the explored spaces (quick tier, from the committed evidence)\n")
out.append("| property | states | transitions | distinct non-trivial | outcome classes | wall s |\n|---|---|---|---|---|---|")
for p in sorted(glob.glob(f'{V}/evidence/C*.json')):
    e = json.load(open(p)); c = e['coverage']
    out.append(f"| {e['property_id']} ({e['tier']}) | {c['states']} | {c['transitions']} | {c['distinct_nontrivial']} | {c['distinct_outcome_classes']} | {e['wall_s']} |")
text = "\n".join(out) + "\n"
p = f'{V}/DESIGN.md'
s = open(p).read()
a, b = "<!-- AUTO:BEGIN -->", "<!-- AUTO:END -->"
if a in s:
    s = s[:s.index(a) + len(a)] + "\n" + text + s[s.index(b):]
    open(p, 'w').write(s)
    print("DESIGN.md tables regenerated")
else:
    print(text)
