#!/bin/bash
# tools/run_all_quick.sh [seed] -- every quick check against the current /repo, evidence and replays redirected
# (committed evidence is not touched); prints one line per property and a final verdict
cd /verif
seed=${1:-0}
out=/dev/shm/allquick_$seed
rm -rf $out; mkdir -p $out
bad=0
for i in $(seq -w 1 20); do
  p=C$i
  VERIF_SEED=$seed UTMC_EVIDENCE_DIR=$out/ev UTMC_REPLAY_DIR=$out/rp ./check $p --tier quick > $out/$p.log 2>&1
  rc=$?
  echo "$p rc=$rc $(grep -c '^VIOLATION' $out/$p.log) violation lines :: $(tail -1 $out/$p.log | cut -c1-170)"
  [ $rc -ne 0 ] && bad=1
done
echo "ALL-QUICK seed=$seed $( [ $bad -eq 0 ] && echo PASS || echo FAIL )"
