"""tools/triage.py <replay-dir> [n]: group replay files by the last fingerprint component, show examples"""
import collections, glob, json, sys
d = sys.argv[1]; n = int(sys.argv[2]) if len(sys.argv) > 2 else 2
g = collections.defaultdict(list)
for p in glob.glob(d + "/*.json"):
    doc = json.load(open(p))
    parts = doc["fingerprint"].split("|")
    g[parts[-1] if len(sys.argv) < 4 else "|".join(parts[int(sys.argv[3]):])].append(doc)
for k, docs in sorted(g.items(), key=lambda kv: -len(kv[1])):
    print(f"== {k}: {len(docs)} fingerprints, {sum(x['count'] for x in docs)} cases")
    for x in docs[:n]:
        print("    ", x["summary"][:330])
