#!/bin/bash
# tools/keep_seed.sh <seed-id> <property> <diff> <demo> <note> <caught-by text>
set -e
D=/verif/seeded/$1; mkdir -p "$D"
cp "$3" "$D/patch.diff"; cp "$4" "$D/demo.py"
/venv/bin/python - "$1" "$2" "$5" "$6" <<'P'
import json, sys
sid, prop, note, caught = sys.argv[1:5]
meta = dict(id=sid, property=prop, needs_to_manifest=open(note).read().strip(),
            confirmed="tools/try_mutant.sh: patch applies to a scratch worktree of /repo HEAD; baseline 115 tests pass with it; "
                      "demo.py exits 0 on the clean tree and non-zero with the patch (PYTHONPATH=<tree> /venv/bin/python demo.py)",
            detected_by=caught, origin="written by an independent sub-agent that saw only the property text")
json.dump(meta, open(f"/verif/seeded/{sid}/meta.json", "w"), indent=1)
P
echo kept $1
