import json,glob,collections,sys
d=sys.argv[1]; idx=[int(i) for i in sys.argv[2].split(',')]; n=int(sys.argv[3]) if len(sys.argv)>3 else 2
c=collections.Counter(); ex={}
for p in glob.glob(d+'/*.json'):
    doc=json.load(open(p)); parts=doc['fingerprint'].split('|')
    k=tuple(parts[i] for i in idx if i < len(parts))
    c[k]+=doc['count']; ex.setdefault(k,[]).append(doc['summary'][:360])
for k,cnt in c.most_common():
    print(cnt,k,len(ex[k]),'fps')
    for e in ex[k][:n]: print('     ',e)
