"""
C20 demo 1: first parse of a base class racing with the first parse of its subclass.

    Base.level is annotated with a forward reference ('Level', defined further down) and carries a
    constraint (ge=1).  Sub inherits the field, so the parser of Sub shares the pending reference and
    the field object with the parser of Base (each parser has its own first-use lock).

Schedule (source-line granularity, one preemption):
    T1  Base(level=5)   ... runs into the first-use resolution, evaluates the reference, is preempted
                            right before it parses the evaluated value into the constrained type
    T2  Sub(level=0)    ... runs alone to completion: must be rejected (0 < 1)
    T1  resumes and finishes
afterwards Base(level=0) / Sub(level=0) must still be rejected and level='3' must be converted to 3.
"""
import linecache
import sys
import threading

import utype
from utype import Schema, Field, exc


class Base(Schema):
    level: 'Level' = Field(ge=1)


class Sub(Base):
    pass


Level = int


class PauseAt:
    """pause the traced thread right before it executes the first line of <func> (in a file whose name
    ends with <file_suffix>) whose source text contains <needle>"""

    def __init__(self, file_suffix, func, needle):
        self.file_suffix, self.func, self.needle = file_suffix, func, needle
        self.reached = threading.Event()
        self.resume = threading.Event()
        self.done = False

    def _local(self, frame, event, arg):
        if event == 'line' and not self.done:
            line = linecache.getline(frame.f_code.co_filename, frame.f_lineno)
            if self.needle in line:
                self.done = True
                self.reached.set()
                assert self.resume.wait(20), 'scheduler: never resumed'
        return self._local

    def __call__(self, frame, event, arg):
        code = frame.f_code
        if not self.done and code.co_name == self.func and code.co_filename.endswith(self.file_suffix):
            return self._local
        return None


def rejected(cls, **data):
    try:
        cls(**data)
    except exc.ParseError:
        return True
    return False


def main():
    assert 'utype' in sys.modules and utype.__file__
    assert Base.__parser__.forward_refs and Sub.__parser__.forward_refs, 'scenario: references must be pending'

    pause = PauseAt('parser/base.py', '_resolve_forward_refs', 'value = ref.__forward_value__')
    results = {}

    def t1():
        sys.settrace(pause)
        try:
            results['t1'] = Base(level=5)
        except BaseException as e:  # noqa
            results['t1'] = e
        finally:
            sys.settrace(None)

    def t2():
        try:
            results['t2'] = Sub(level=0)
        except BaseException as e:  # noqa
            results['t2'] = e

    th1 = threading.Thread(target=t1)
    th1.start()
    assert pause.reached.wait(20), 'scenario: T1 never reached the first-use resolution'
    th2 = threading.Thread(target=t2)
    th2.start()
    th2.join(20)
    assert not th2.is_alive(), 'T2 blocked'
    pause.resume.set()
    th1.join(20)
    assert not th1.is_alive(), 'T1 blocked'

    print('T1 Base(level=5) ->', repr(results['t1']))
    print('T2 Sub(level=0)  ->', repr(results['t2']))
    print('field type now   ->', Base.__parser__.fields['level'].type)

    # run alone, Sub(level=0) is rejected
    assert isinstance(results['t2'], exc.ParseError), \
        f'T2: Sub(level=0) returned {results["t2"]!r} instead of being rejected (ge=1)'
    assert isinstance(results['t1'], Base) and results['t1'].level == 5, results['t1']
    # and the type must not be left half-initialised for later calls either
    assert rejected(Base, level=0), 'Base(level=0) accepted after the race: constraint ge=1 lost'
    assert rejected(Sub, level=0), 'Sub(level=0) accepted after the race: constraint ge=1 lost'
    assert Base(level='3').level == 3 and Sub(level='4').level == 4
    print('OK')


if __name__ == '__main__':
    main()
